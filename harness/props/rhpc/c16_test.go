package prhpc

import (
	"context"
	"encoding/json"
	"errors"
	"fmt"
	"os"
	"reflect"
	"strconv"
	"strings"
	"testing"
	"time"

	"go.sia.tech/core/consensus"
	proto4 "go.sia.tech/core/rhp/v4"
	"go.sia.tech/core/types"
	rhp4 "go.sia.tech/coreutils/rhp/v4"
	"pgregory.net/rapid"

	"verif/kit"
	"verif/rhpc"
)

// C16Case: one formation / renewal / refresh between the real client and the
// real server with drawn parameters, a basis relation, a funding mode and at
// most one fault.
type C16Case struct {
	RPC     string `json:"rpc"`               // form renew refresh-full refresh-partial
	Allow   int    `json:"allow"`             // allowance selector
	Coll    int    `json:"coll"`              // collateral selector
	Proof   int    `json:"proof"`             // proof height selector
	Invalid string `json:"invalid,omitempty"` // parameter choice that validation rejects
	Sectors int    `json:"sectors,omitempty"` // sectors in the existing contract (renew / refresh)
	// Existing says what the chain knows about the existing contract (renew /
	// refresh): "" it is confirmed; "unmined" it was formed but its formation
	// transaction was never mined; "reorged" the block that confirmed it was
	// reorganised away. In the last two the host can lock the contract but has
	// no state element for it.
	Existing string `json:"existing,omitempty"`
	Basis    string `json:"basis"`            // same behind stale stale-unapplied unknown
	K        int    `json:"k,omitempty"`      // how far behind / fork length
	OnFork   bool   `json:"onFork,omitempty"` // the renter's funds were created on its fork
	Unconf   bool   `json:"unconf,omitempty"` // renter inputs are unconfirmed, with parents
	// ParentMined (with Unconf and basis behind / stale): the parent that is
	// still unconfirmed for the renter is already confirmed on the host's chain,
	// in a block the renter has not seen; the host's final set then has no
	// parents although the renter sent some.
	ParentMined bool `json:"parentMined,omitempty"`
	// ParentPooled (with Unconf): the host's pool already holds the renter's
	// unconfirmed parent when the exchange starts.
	ParentPooled bool `json:"parentPooled,omitempty"`
	// SpentOnHost (confirmed funds, basis behind / stale): a block the renter
	// has not seen already spends the outputs the renter will fund with.
	SpentOnHost bool `json:"spentOnHost,omitempty"`
	// StaleRevision (renew / refresh): the renter's view of the existing
	// contract is one revision behind the host's.
	StaleRevision bool `json:"staleRevision,omitempty"`
	// Frag: both wallets hold many small outputs, so funding takes several
	// inputs on each side.
	Frag  bool       `json:"frag,omitempty"`
	Fault rhpc.Fault `json:"fault"`
	Reps  int        `json:"reps,omitempty"` // the attempt is repeated this many extra times while it fails
}

var (
	c16RPCs    = []string{"form", "renew", "refresh-full", "refresh-partial"}
	c16Bases   = []string{"same", "behind", "stale", "stale-unapplied", "unknown"}
	c16Invalid = []string{"zero-allowance", "collateral-over-max", "allowance-below-min", "proof-too-soon", "host-underfunded", "renter-underfunded", "not-accepting"}
)

func exchangeOf(rpc string) string {
	if strings.HasPrefix(rpc, "refresh") {
		return "refresh"
	}
	return rpc
}

func genFault(t *rapid.T, rpc string) rhpc.Fault {
	switch rapid.IntRange(0, 9).Draw(t, "faultKind") {
	case 0, 1:
		return rhpc.Fault{}
	case 2:
		if rapid.IntRange(0, 3).Draw(t, "txpool") == 0 {
			return rhpc.Fault{Kind: "txpool"}
		}
		return rhpc.Fault{Kind: "dial"}
	case 3:
		// the host's chain grows while the renter's signatures are in flight
		return rhpc.Fault{Kind: "advance", Dir: rhpc.R2H, Index: rapid.IntRange(0, 1).Draw(t, "idx"), A: rapid.IntRange(1, 3).Draw(t, "blocks")}
	case 4:
		if rapid.IntRange(0, 9).Draw(t, "stall") == 0 {
			return rhpc.Fault{Kind: "stall", Dir: rapid.IntRange(0, 1).Draw(t, "dir"), Index: rapid.IntRange(0, 1).Draw(t, "idx")}
		}
		return rhpc.Fault{Kind: "cut", Dir: rapid.IntRange(0, 1).Draw(t, "dir"), Index: rapid.IntRange(0, 1).Draw(t, "idx")}
	case 5:
		return rhpc.Fault{Kind: "cut", Dir: rapid.IntRange(0, 1).Draw(t, "dir"), Index: rapid.IntRange(0, 1).Draw(t, "idx")}
	default:
		f := rhpc.Fault{Kind: "corrupt", Dir: rapid.IntRange(0, 1).Draw(t, "dir"), Index: rapid.IntRange(0, 1).Draw(t, "idx")}
		f.Mut = rapid.SampledFrom(rhpc.FormationMuts(exchangeOf(rpc), f.Dir, f.Index)).Draw(t, "mut")
		return f
	}
}

func genC16(t *rapid.T) C16Case {
	c := C16Case{
		RPC:   rapid.SampledFrom(c16RPCs).Draw(t, "rpc"),
		Allow: rapid.IntRange(0, 150).Draw(t, "allow"),
		Coll:  rapid.IntRange(0, 100).Draw(t, "coll"),
		Proof: rapid.IntRange(0, 40).Draw(t, "proof"),
	}
	if rapid.IntRange(0, 7).Draw(t, "inv") == 0 {
		c.Invalid = rapid.SampledFrom(c16Invalid).Draw(t, "invalid")
	}
	if c.RPC != "form" {
		c.Sectors = rapid.IntRange(0, 2).Draw(t, "sectors")
		c.Existing = []string{"", "", "", "", "unmined", "reorged"}[rapid.IntRange(0, 5).Draw(t, "existing")]
	}
	// half of the cases on the same tip, the rest spread over the other relations
	if rapid.IntRange(0, 1).Draw(t, "sameTip") == 0 {
		c.Basis = "same"
	} else {
		c.Basis = rapid.SampledFrom(c16Bases[1:]).Draw(t, "basis")
		c.K = rapid.IntRange(1, 3).Draw(t, "k")
		if c.Basis == "stale" || c.Basis == "unknown" {
			c.OnFork = rapid.IntRange(0, 3).Draw(t, "onFork") == 0
		}
	}
	c.Unconf = rapid.IntRange(0, 2).Draw(t, "unconf") == 0
	if c.Unconf && !c.OnFork && (c.Basis == "behind" || c.Basis == "stale") {
		c.ParentMined = rapid.IntRange(0, 1).Draw(t, "parentMined") == 0
	}
	if c.Unconf && !c.ParentMined && !c.OnFork && (c.Basis == "same" || c.Basis == "behind" || c.Basis == "stale") {
		c.ParentPooled = rapid.IntRange(0, 3).Draw(t, "parentPooled") == 0
	}
	if !c.Unconf && !c.OnFork && (c.Basis == "behind" || c.Basis == "stale") {
		c.SpentOnHost = rapid.IntRange(0, 4).Draw(t, "spentOnHost") == 0
	}
	if c.RPC != "form" {
		c.StaleRevision = rapid.IntRange(0, 7).Draw(t, "staleRevision") == 0
	}
	c.Frag = rapid.IntRange(0, 3).Draw(t, "frag") == 0
	c.Fault = genFault(t, c.RPC)
	c.Reps = rapid.IntRange(0, 3).Draw(t, "reps")
	return c
}

// ---------------------------------------------------------------- world

var (
	c16HostKey     = rhpc.Key("c16-host-wallet")
	c16HostID      = rhpc.Key("c16-host-identity")
	c16RenterKey   = rhpc.Key("c16-renter-wallet")
	c16ContractKey = rhpc.Key("c16-renter-contract")
)

type c16World struct {
	net     *consensus.Network
	H, R    *rhpc.Party
	I       *rhpc.Node
	host    *rhpc.RealHost
	hw      *rhpc.RecWallet
	prices  proto4.HostPrices
	salt    uint64
	signer  *rhpc.FundAndSign
	settled proto4.HostSettings

	poolFails    bool
	notAccepting bool
	parentPooled bool
	existingID   types.FileContractID
	existing     types.V2FileContract
}

func (w *c16World) close() {
	if w.host != nil {
		w.host.Close()
	}
	if w.H != nil {
		w.H.Close()
	}
	if w.R != nil {
		w.R.Close()
	}
}

// grow mines n blocks on top of parent (the tip state of node from) paying
// addr and hands each block to the given managers. It returns the last state.
func (w *c16World) grow(parent consensus.State, n int, addr types.Address, txns []types.V2Transaction, to ...*rhpc.Node) (consensus.State, []types.Block, error) {
	var blocks []types.Block
	cs := parent
	for i := 0; i < n; i++ {
		w.salt++
		b := rhpc.MineOn(cs, addr, txns, w.salt)
		txns = nil
		blocks = append(blocks, b)
		for _, nd := range to {
			if err := nd.CM.AddBlocks([]types.Block{b}); err != nil {
				return cs, nil, fmt.Errorf("%s rejected harness block at height %d: %w", nd.Name, cs.Index.Height+1, err)
			}
		}
		// the first recipient must be a node for which this branch is the best
		// chain: only an applied block has a complete state (a stored but
		// unapplied block only has its header state)
		if to[0].CM.Tip().ID != b.ID() {
			return cs, nil, fmt.Errorf("HARNESS: %s did not move to the block it was given first", to[0].Name)
		}
		cs = to[0].CM.TipState()
	}
	return cs, blocks, nil
}

func (w *c16World) syncAll() error {
	if err := w.H.Sync(); err != nil {
		return err
	}
	if err := w.R.Sync(); err != nil {
		return err
	}
	if w.host != nil {
		return w.host.Contractor.WaitTip(w.H.CM)
	}
	return nil
}

func newC16World(c C16Case) (w *c16World, err error) {
	n, g := rhpc.Network()
	w = &c16World{net: n}
	world := w // "return nil, err" below clears w
	defer func() {
		if err != nil {
			world.close()
		}
	}()
	if w.H, err = rhpc.NewParty("host", c16HostKey, n, g); err != nil {
		return
	}
	if w.R, err = rhpc.NewParty("renter", c16RenterKey, n, g); err != nil {
		return
	}
	if w.I, err = rhpc.NewNode("independent", n, g); err != nil {
		return
	}
	all := []*rhpc.Node{w.H.Node, w.R.Node, w.I}
	// the reference contractor follows the chain through reorg notifications,
	// so the host exists before the first block
	w.hw = &rhpc.RecWallet{Wallet: w.H.W}
	w.settled = rhpc.DefaultSettings(w.H.Addr())
	if c.Invalid == "not-accepting" {
		w.notAccepting = true // switched off after the set-up formation
	}
	if c.Invalid == "host-underfunded" {
		// the host accepts a collateral it cannot fund
		w.settled.MaxCollateral = types.Siacoins(4000000)
	}
	w.host = rhpc.NewRealHost(c16HostID, w.H.CM, w.hw, w.settled)
	w.signer = &rhpc.FundAndSign{W: w.R.W, PK: c16ContractKey}
	cs := w.H.CM.TipState()
	var prefix, bs []types.Block
	if cs, bs, err = w.grow(cs, 3, w.H.Addr(), nil, all...); err != nil {
		return
	}
	prefix = append(prefix, bs...)
	if cs, bs, err = w.grow(cs, 3, w.R.Addr(), nil, all...); err != nil {
		return
	}
	prefix = append(prefix, bs...)
	if cs, bs, err = w.grow(cs, int(n.MaturityDelay)+1, rhpc.VoidAddr, nil, all...); err != nil {
		return
	}
	prefix = append(prefix, bs...)
	if err = w.syncAll(); err != nil {
		return
	}
	if c.Frag {
		// both wallets are split into many small outputs (the rest is burnt)
		ht, e := splitWallet(w.H, c16HostKey, cs, 14, types.Siacoins(25))
		if e != nil {
			return nil, e
		}
		rt, e := splitWallet(w.R, c16RenterKey, cs, 14, types.Siacoins(40))
		if e != nil {
			return nil, e
		}
		if cs, bs, err = w.grow(cs, 1, rhpc.VoidAddr, []types.V2Transaction{ht, rt}, all...); err != nil {
			return
		}
		prefix = append(prefix, bs...)
	}
	if err = w.syncAll(); err != nil {
		return
	}
	ctx, cancel := context.WithTimeout(context.Background(), 30*time.Second)
	defer cancel()

	if c.RPC != "form" {
		// an existing contract, formed honestly and confirmed in the common prefix
		var st proto4.HostSettings
		if st, err = rhp4.RPCSettings(ctx, w.host.T); err != nil {
			return nil, fmt.Errorf("settings: %w", err)
		}
		var fr rhp4.RPCFormContractResult
		fr, err = rhp4.RPCFormContract(ctx, w.host.T, w.R.CM, w.signer, w.R.CM.TipState(), st.Prices, c16HostID.PublicKey(), st.WalletAddress, proto4.RPCFormContractParams{
			RenterPublicKey: c16ContractKey.PublicKey(), RenterAddress: w.R.Addr(),
			Allowance: types.Siacoins(120), Collateral: types.Siacoins(4), ProofHeight: w.H.CM.Tip().Height + 70,
		})
		if err != nil {
			return nil, fmt.Errorf("setup formation: %w", err)
		}
		w.host.T.WaitIdle(10 * time.Second)
		switch c.Existing {
		case "unmined":
			// the formation set stays in the host's pool; the chain moves on
			// without it
			if cs, _, err = w.grow(w.H.CM.TipState(), 1, rhpc.VoidAddr, nil, all...); err != nil {
				return
			}
		case "reorged":
			// confirmed in a block that is then replaced by a longer branch
			// without it (built on a scratch node that never saw that block)
			if _, _, err = w.grow(w.H.CM.TipState(), 1, rhpc.VoidAddr, w.H.CM.V2PoolTransactions(), all...); err != nil {
				return
			}
			if err = w.syncAll(); err != nil {
				return
			}
			var aux *rhpc.Node
			if aux, err = rhpc.NewNode("aux", n, g); err != nil {
				return
			}
			if err = aux.CM.AddBlocks(prefix); err != nil {
				return nil, fmt.Errorf("aux: %w", err)
			}
			var alt []types.Block
			if _, alt, err = w.grow(aux.CM.TipState(), 2, rhpc.VoidAddr, nil, aux); err != nil {
				return
			}
			for _, nd := range all {
				if err = nd.CM.AddBlocks(alt); err != nil {
					return nil, fmt.Errorf("%s rejected the replacing branch: %w", nd.Name, err)
				}
				if nd.CM.Tip() != aux.CM.Tip() {
					return nil, fmt.Errorf("HARNESS: %s did not reorganise to the replacing branch", nd.Name)
				}
			}
			cs = aux.CM.TipState()
		default:
			if cs, _, err = w.grow(w.H.CM.TipState(), 1, rhpc.VoidAddr, w.H.CM.V2PoolTransactions(), all...); err != nil {
				return
			}
		}
		if err = w.syncAll(); err != nil {
			return
		}
		w.existingID, w.existing = fr.Contract.ID, fr.Contract.Revision
		if k := c.Sectors % 3; k > 0 {
			var roots []types.Hash256
			for i := 0; i < k; i++ {
				s := rhpc.PoolSector(i)
				if err = w.host.Sectors.StoreSector(s.Root, s.Data, s.Subtrees, 1000); err != nil {
					return
				}
				roots = append(roots, s.Root)
			}
			var ar rhp4.RPCAppendSectorsResult
			ar, err = rhp4.RPCAppendSectors(ctx, w.host.T, w.signer, w.R.CM.TipState(), st.Prices, fr.Contract, roots)
			if err != nil {
				return nil, fmt.Errorf("setup append: %w", err)
			}
			w.existing = ar.Revision
			w.host.T.WaitIdle(10 * time.Second)
		}
	}

	if c.RPC != "form" && c.StaleRevision {
		// the host moves on by one revision the renter never learns about
		var st proto4.HostSettings
		if st, err = rhp4.RPCSettings(ctx, w.host.T); err != nil {
			return nil, fmt.Errorf("settings: %w", err)
		}
		w.host.T.WaitIdle(10 * time.Second)
		_ = st
		deps := []proto4.AccountDeposit{{Account: proto4.Account(c16ContractKey.PublicKey()), Amount: types.Siacoins(1)}}
		if _, err = rhp4.RPCFundAccounts(ctx, w.host.T, w.R.CM.TipState(), w.signer, rhp4.ContractRevision{ID: w.existingID, Revision: w.existing}, deps); err != nil {
			return nil, fmt.Errorf("setup fund accounts: %w", err)
		}
		w.host.T.WaitIdle(10 * time.Second)
	}
	if w.notAccepting {
		st := w.settled
		st.AcceptingContracts = false
		w.host.Settings.Update(st)
	}

	// basis relation
	k := 1 + mod(c.K-1, 3)
	fork := func(parent consensus.State, n int, to ...*rhpc.Node) error {
		var txns []types.V2Transaction
		if c.OnFork {
			// on this branch the renter's funds are moved to a fresh output
			txn, ok, ferr := w.sweepRenter(parent)
			if ferr != nil {
				return ferr
			}
			if ok {
				txns = []types.V2Transaction{txn}
			}
		}
		_, _, e := w.grow(parent, n, rhpc.VoidAddr, txns, to...)
		return e
	}
	// the renter's pooled parent that the host's chain confirms in a block the
	// renter never sees
	var hostOnly []types.V2Transaction
	if !c.Unconf && c.SpentOnHost && !c.OnFork && (c.Basis == "behind" || c.Basis == "stale") {
		// the host's chain spends the renter's outputs in a block the renter
		// never sees; the renter's pool does not know the spend either
		txn, ok, e := w.sweepRenter(cs)
		if e != nil {
			return nil, e
		}
		if ok {
			hostOnly = []types.V2Transaction{txn}
		}
	}
	if c.Unconf && c.ParentMined && !c.OnFork && (c.Basis == "behind" || c.Basis == "stale") {
		txn, ok, e := w.sweepRenter(cs)
		if e != nil {
			return nil, e
		}
		if ok {
			if _, e := w.R.CM.AddV2PoolTransactions(w.R.CM.Tip(), []types.V2Transaction{txn}); e != nil {
				return nil, fmt.Errorf("renter pool rejected its own sweep: %w", e)
			}
			hostOnly = []types.V2Transaction{txn}
		}
	}
	switch c.Basis {
	case "same", "":
	case "behind":
		_, _, err = w.grow(cs, k, rhpc.VoidAddr, hostOnly, w.H.Node, w.I)
	case "stale":
		// the host followed branch A, then reorganised to the longer branch B
		if err = fork(cs, k, w.H.Node, w.R.Node); err == nil {
			_, _, err = w.grow(cs, k+1, rhpc.VoidAddr, hostOnly, w.I, w.H.Node)
		}
	case "stale-unapplied":
		// the host stored the renter's branch but never applied it
		if _, _, err = w.grow(cs, k+1, rhpc.VoidAddr, nil, w.H.Node, w.I); err == nil {
			err = fork(cs, k, w.R.Node, w.H.Node)
		}
	case "unknown":
		err = fork(cs, k, w.R.Node)
	default:
		err = fmt.Errorf("unknown basis relation %q", c.Basis)
	}
	if err != nil {
		return
	}
	if err = w.syncAll(); err != nil {
		return
	}
	if w.H.CM.Tip() != w.I.CM.Tip() {
		return nil, fmt.Errorf("independent node is not on the host's chain")
	}

	if c.Unconf && hostOnly == nil {
		// the renter's confirmed outputs are all spent by a pooled transaction
		// that pays the renter, so funding must use unconfirmed outputs
		txn, ok, e := w.sweepRenter(w.R.CM.TipState())
		if e != nil {
			return nil, e
		}
		if ok {
			if _, e := w.R.CM.AddV2PoolTransactions(w.R.CM.Tip(), []types.V2Transaction{txn}); e != nil {
				return nil, fmt.Errorf("renter pool rejected its own sweep: %w", e)
			}
			if c.ParentPooled && (c.Basis == "same" || c.Basis == "" || c.Basis == "behind" || c.Basis == "stale") && !c.OnFork {
				// the host has already seen that transaction
				if _, e := w.H.CM.AddV2PoolTransactions(w.R.CM.Tip(), []types.V2Transaction{txn}); e != nil {
					return nil, fmt.Errorf("host pool rejected the renter's sweep: %w", e)
				}
				w.parentPooled = true
			}
		}
	}

	var st proto4.HostSettings
	if st, err = rhp4.RPCSettings(ctx, w.host.T); err != nil {
		return nil, fmt.Errorf("settings: %w", err)
	}
	w.prices = st.Prices
	w.host.T.WaitIdle(10 * time.Second)
	return w, nil
}

// splitWallet builds a signed transaction that spends every spendable output
// of p into n outputs of `each` to p's address and burns the rest.
func splitWallet(p *rhpc.Party, key types.PrivateKey, cs consensus.State, n int, each types.Currency) (types.V2Transaction, error) {
	if err := p.Sync(); err != nil {
		return types.V2Transaction{}, err
	}
	outs, err := p.W.SpendableOutputs()
	if err != nil || len(outs) == 0 {
		return types.V2Transaction{}, fmt.Errorf("%s has nothing to split: %v", p.Name, err)
	}
	var txn types.V2Transaction
	var sum types.Currency
	for _, o := range outs {
		txn.SiacoinInputs = append(txn.SiacoinInputs, types.V2SiacoinInput{Parent: o.Copy()})
		sum = sum.Add(o.SiacoinOutput.Value)
	}
	txn.MinerFee = types.Siacoins(1)
	rest := sum.Sub(txn.MinerFee)
	for i := 0; i < n; i++ {
		txn.SiacoinOutputs = append(txn.SiacoinOutputs, types.SiacoinOutput{Address: p.Addr(), Value: each})
		rest = rest.Sub(each)
	}
	txn.SiacoinOutputs = append(txn.SiacoinOutputs, types.SiacoinOutput{Address: rhpc.VoidAddr, Value: rest})
	policy := p.W.SpendPolicy()
	sh := cs.InputSigHash(txn)
	for i := range txn.SiacoinInputs {
		txn.SiacoinInputs[i].SatisfiedPolicy = types.SatisfiedPolicy{Policy: policy, Signatures: []types.Signature{key.SignHash(sh)}}
	}
	return txn, nil
}

// sweepRenter builds a signed transaction that spends every confirmed, mature
// renter output known to the renter's wallet into two outputs of the renter.
func (w *c16World) sweepRenter(cs consensus.State) (types.V2Transaction, bool, error) {
	if err := w.R.Sync(); err != nil {
		return types.V2Transaction{}, false, err
	}
	outs, err := w.R.W.SpendableOutputs()
	if err != nil || len(outs) == 0 {
		return types.V2Transaction{}, false, err
	}
	var txn types.V2Transaction
	var sum types.Currency
	for _, o := range outs {
		txn.SiacoinInputs = append(txn.SiacoinInputs, types.V2SiacoinInput{Parent: o.Copy()})
		sum = sum.Add(o.SiacoinOutput.Value)
	}
	fee := types.Siacoins(1)
	rest := sum.Sub(fee)
	a := rest.Div64(3)
	txn.MinerFee = fee
	txn.SiacoinOutputs = []types.SiacoinOutput{{Address: w.R.Addr(), Value: a}, {Address: w.R.Addr(), Value: rest.Sub(a)}}
	policy := w.R.W.SpendPolicy()
	sh := cs.InputSigHash(txn)
	for i := range txn.SiacoinInputs {
		txn.SiacoinInputs[i].SatisfiedPolicy = types.SatisfiedPolicy{Policy: policy, Signatures: []types.Signature{c16RenterKey.SignHash(sh)}}
	}
	return txn, true, nil
}

// ---------------------------------------------------------------- attempt

type c16Result struct {
	contract rhp4.ContractRevision
	set      rhp4.TransactionSet
	cost     types.Currency
}

func (w *c16World) params(c C16Case) (allowance, collateral types.Currency, proof uint64) {
	allowance = types.Siacoins(uint32(50 + mod(c.Allow, 151)))
	collateral = types.Siacoins(uint32(mod(c.Coll, 101)))
	tip := w.H.CM.Tip().Height
	proof = tip + 30 + uint64(mod(c.Proof, 41))
	if c.RPC == "renew" {
		proof = w.existing.ProofHeight + 1 + uint64(mod(c.Proof, 41))
	}
	switch c.Invalid {
	case "zero-allowance":
		allowance = types.ZeroCurrency
		collateral = types.ZeroCurrency
	case "collateral-over-max":
		collateral = w.settled.MaxCollateral.Add(types.Siacoins(1))
		allowance = collateral
	case "allowance-below-min":
		allowance = types.NewCurrency64(1)
		collateral = types.Siacoins(80)
	case "proof-too-soon":
		proof = tip + 3
	case "host-underfunded":
		// more than the host's three block rewards, justified by the allowance
		collateral = types.Siacoins(1200000)
		allowance = types.Siacoins(700000)
	case "renter-underfunded":
		allowance = types.Siacoins(3000000)
		collateral = types.ZeroCurrency
	}
	return
}

// failingPool is a renter-side rhp4.TxPool that cannot produce the parent set.
type failingPool struct{ empty bool }

func (f failingPool) V2TransactionSet(basis types.ChainIndex, _ types.V2Transaction) (types.ChainIndex, []types.V2Transaction, error) {
	if f.empty {
		return basis, nil, nil // probe only: an empty set breaks the documented TxPool contract
	}
	return types.ChainIndex{}, nil, errors.New("rhpc: injected transaction pool failure")
}

func (w *c16World) pool(c C16Case) rhp4.TxPool {
	if w.poolFails {
		return failingPool{empty: os.Getenv("VERIF_C16_PROBE_EMPTY_POOL") != ""}
	}
	return w.R.CM
}

func (w *c16World) attempt(ctx context.Context, c C16Case) (c16Result, error) {
	allowance, collateral, proof := w.params(c)
	cs := w.R.CM.TipState()
	t := w.host.T
	switch c.RPC {
	case "form":
		res, err := rhp4.RPCFormContract(ctx, t, w.pool(c), w.signer, cs, w.prices, c16HostID.PublicKey(), w.settled.WalletAddress, proto4.RPCFormContractParams{
			RenterPublicKey: c16ContractKey.PublicKey(), RenterAddress: w.R.Addr(), Allowance: allowance, Collateral: collateral, ProofHeight: proof,
		})
		return c16Result{res.Contract, res.FormationSet, res.Cost}, err
	case "renew":
		res, err := rhp4.RPCRenewContract(ctx, t, w.pool(c), w.signer, cs, w.prices, w.settled.WalletAddress, w.existing, proto4.RPCRenewContractParams{
			ContractID: w.existingID, Allowance: allowance, Collateral: collateral, ProofHeight: proof,
		})
		return c16Result{res.Contract, res.RenewalSet, res.Cost}, err
	case "refresh-full":
		res, err := rhp4.RPCRefreshContractFullRollover(ctx, t, w.pool(c), w.signer, cs, w.prices, w.settled.WalletAddress, w.existing, proto4.RPCRefreshContractParams{
			ContractID: w.existingID, Allowance: allowance, Collateral: collateral,
		})
		return c16Result{res.Contract, res.RenewalSet, res.Cost}, err
	case "refresh-partial":
		res, err := rhp4.RPCRefreshContractPartialRollover(ctx, t, w.pool(c), w.signer, cs, w.prices, w.settled.WalletAddress, w.existing, proto4.RPCRefreshContractParams{
			ContractID: w.existingID, Allowance: allowance, Collateral: collateral,
		})
		return c16Result{res.Contract, res.RenewalSet, res.Cost}, err
	}
	return c16Result{}, fmt.Errorf("HARNESS: unknown rpc %q", c.RPC)
}

func bothSigned(cs consensus.State, fc types.V2FileContract) error {
	h := cs.ContractSigHash(fc)
	if !fc.RenterPublicKey.VerifyHash(h, fc.RenterSignature) {
		return errors.New("the renter signature does not verify over it")
	}
	if !fc.HostPublicKey.VerifyHash(h, fc.HostSignature) {
		return errors.New("the host signature does not verify over it")
	}
	return nil
}

// confirm submits a transaction set to the independent node's pool, mines it,
// and checks that exactly the given contract appears with the agreed funding.
func (w *c16World) confirm(c C16Case, what string, id types.FileContractID, want types.V2FileContract, set rhp4.TransactionSet, agreedRenterCost *types.Currency) error {
	if len(set.Transactions) == 0 {
		return fmt.Errorf("%s: empty transaction set", what)
	}
	if _, err := w.I.CM.AddV2PoolTransactions(set.Basis, set.Transactions); err != nil {
		return fmt.Errorf("%s is rejected by an independent node's transaction pool at its basis %v: %v", what, set.Basis, err)
	}
	before := w.I.CM.Tip()
	if _, _, err := w.grow(w.I.CM.TipState(), 1, rhpc.VoidAddr, w.I.CM.V2PoolTransactions(), w.I); err != nil {
		return fmt.Errorf("%s: the block containing the set is invalid: %v", what, err)
	}
	_, applied, err := w.I.CM.UpdatesSince(before, 10)
	if err != nil || len(applied) != 1 {
		return fmt.Errorf("HARNESS: UpdatesSince after mining: %v (%d)", err, len(applied))
	}
	var created *types.V2FileContractElement
	resolved := false
	for _, d := range applied[0].V2FileContractElementDiffs() {
		d := d
		if d.Created && d.V2FileContractElement.ID == id {
			created = &d.V2FileContractElement
		}
		if d.Resolution != nil && d.V2FileContractElement.ID == w.existingID {
			if _, ok := d.Resolution.(*types.V2FileContractRenewal); ok {
				resolved = true
			}
		}
	}
	if created == nil {
		return fmt.Errorf("%s: once mined, no contract with the returned id %v is created", what, id)
	}
	if !reflect.DeepEqual(created.V2FileContract, want) {
		a, _ := json.Marshal(created.V2FileContract)
		b, _ := json.Marshal(want)
		return fmt.Errorf("%s: the contract created on chain differs from the returned one:\n chain    %s\n returned %s", what, a, b)
	}
	if c.RPC != "form" && !resolved {
		return fmt.Errorf("%s: once mined, the existing contract is not resolved by a renewal", what)
	}
	// funding split of the final transaction
	last := set.Transactions[len(set.Transactions)-1]
	var renterIn, renterOut, hostIn, hostOut types.Currency
	ra, ha := w.R.Addr(), w.H.Addr()
	for _, in := range last.SiacoinInputs {
		switch in.Parent.SiacoinOutput.Address {
		case ra:
			renterIn = renterIn.Add(in.Parent.SiacoinOutput.Value)
		case ha:
			hostIn = hostIn.Add(in.Parent.SiacoinOutput.Value)
		}
	}
	for _, o := range last.SiacoinOutputs {
		switch o.Address {
		case ra:
			renterOut = renterOut.Add(o.Value)
		case ha:
			hostOut = hostOut.Add(o.Value)
		}
	}
	cs := w.I.CM.TipState()
	var wantRenter, wantHost types.Currency
	switch c.RPC {
	case "form":
		wantRenter, wantHost = proto4.ContractCost(cs, want, last.MinerFee)
	case "renew":
		r := last.FileContractResolutions[0].Resolution.(*types.V2FileContractRenewal)
		wantRenter, wantHost = proto4.RenewalCost(cs, *r, last.MinerFee)
	default:
		r := last.FileContractResolutions[0].Resolution.(*types.V2FileContractRenewal)
		wantRenter, wantHost = proto4.RefreshCost(cs, w.prices, *r, last.MinerFee)
	}
	if got := renterIn.Sub(renterOut); got != wantRenter {
		return fmt.Errorf("%s: the renter funds %v, the agreed renter cost is %v", what, got, wantRenter)
	}
	if got := hostIn.Sub(hostOut); got != wantHost {
		return fmt.Errorf("%s: the host funds %v, the agreed host cost is %v", what, got, wantHost)
	}
	if agreedRenterCost != nil && *agreedRenterCost != wantRenter {
		return fmt.Errorf("%s: the client reports cost %v, the contract determines %v", what, *agreedRenterCost, wantRenter)
	}
	return nil
}

func faultLabel(f rhpc.Fault) string {
	switch f.Kind {
	case "":
		return "none"
	case "dial":
		return "dial"
	case "txpool":
		return "txpool"
	case "cut":
		return fmt.Sprintf("cut/%s%d", []string{"r2h", "h2r"}[f.Dir&1], f.Index)
	case "stall":
		return fmt.Sprintf("stall/%s%d", []string{"r2h", "h2r"}[f.Dir&1], f.Index)
	case "advance":
		return fmt.Sprintf("host-chain-advances/%s%d", []string{"r2h", "h2r"}[f.Dir&1], f.Index)
	default:
		return fmt.Sprintf("corrupt/%s%d/%s", []string{"r2h", "h2r"}[f.Dir&1], f.Index, f.Mut)
	}
}

var c16Timeout = 30 * time.Second

// A stalled exchange: the client's 2-minute default stream timeout runs on a
// clock compressed by c16StallScale (0.3 s); the watchdog is ~65 times that.
const (
	c16StallScale    = 400
	c16StallWatchdog = 20 * time.Second
)

func runC16(c C16Case, cs *kit.CaseStats) error {
	if c.Fault.Kind == "corrupt" {
		ok := false
		for _, m := range rhpc.FormationMuts(exchangeOf(c.RPC), c.Fault.Dir&1, c.Fault.Index&1) {
			if m == c.Fault.Mut {
				ok = true
			}
		}
		if !ok {
			return fmt.Errorf("HARNESS: mutation %q does not apply to %s dir %d idx %d", c.Fault.Mut, c.RPC, c.Fault.Dir, c.Fault.Index)
		}
	}
	if c.Invalid == "proof-too-soon" && strings.HasPrefix(c.RPC, "refresh") {
		c.Invalid = "" // a refresh has no proof height parameter
	}
	w, err := newC16World(c)
	if err != nil {
		return fmt.Errorf("INFRA: world: %v", err)
	}
	defer w.close()

	cs.Class("rpc=" + c.RPC)
	cs.Class("basis=" + c.Basis)
	cs.Class("fault=" + faultLabel(c.Fault))
	if c.Invalid != "" {
		cs.Class("invalid=" + c.Invalid)
	}
	if c.Unconf {
		cs.Class("renter-inputs=unconfirmed")
	} else {
		cs.Class("renter-inputs=confirmed")
	}
	if c.OnFork {
		cs.Class("renter-funds-on-fork")
	}
	if c.Unconf && c.ParentMined && !c.OnFork && (c.Basis == "behind" || c.Basis == "stale") {
		cs.Class("renter-parent-already-confirmed-on-host-chain")
	}
	if w.parentPooled {
		cs.Class("renter-parent-already-in-host-pool")
	}
	spentOnHost := !c.Unconf && c.SpentOnHost && !c.OnFork && (c.Basis == "behind" || c.Basis == "stale")
	if spentOnHost {
		cs.Class("renter-funds-already-spent-on-host-chain")
	}
	staleRev := c.RPC != "form" && c.StaleRevision
	if staleRev {
		cs.Class("renter-view-of-contract-one-revision-behind")
	}
	if c.Frag {
		cs.Class("wallets-fragmented")
	}
	if c.RPC == "form" {
		c.Existing = ""
	}
	if c.Existing != "" {
		cs.Class("existing-contract=" + c.Existing)
		cs.NonTrivial()
	}
	if c.Basis != "same" && c.Basis != "" {
		cs.NonTrivial()
	}
	f := c.Fault
	f.Dir &= 1
	f.Index &= 1

	followUp := false
	reps := 1 + mod(c.Reps, 4)
	if kit.Thorough() {
		reps = 1 + mod(c.Reps, 4)*6
	}
	for rep := 0; rep < reps; rep++ {
		auxOnly := f.Kind == "corrupt" && strings.HasPrefix(f.Mut, "aux-")
		hostBefore, err := w.H.View()
		if err != nil {
			return fmt.Errorf("INFRA: %v", err)
		}
		renterBefore, err := w.R.View()
		if err != nil {
			return fmt.Errorf("INFRA: %v", err)
		}
		added0, renewed0 := w.host.Contractor.Recorded()
		funded0, _, _ := w.hw.Counts()

		var mitm *rhpc.MITM
		var hookErr error
		w.host.T.FailDial, w.host.T.Interpose = nil, nil
		w.poolFails = f.Kind == "txpool"
		switch f.Kind {
		case "dial":
			w.host.T.FailDial = func(int) error { return rhpc.ErrDial }
		case "cut", "corrupt", "advance", "stall":
			mitm = &rhpc.MITM{Ex: rhpc.Exchanges[exchangeOf(c.RPC)], Fault: f, Mutate: rhpc.FormationMutate}
			mitm.Hook = func() {
				// the host is blocked reading (or has not started): its chain and
				// the independent node's grow, wallet and contractor follow
				if _, _, err := w.grow(w.H.CM.TipState(), 1+mod(f.A-1, 3), rhpc.VoidAddr, nil, w.H.Node, w.I); err != nil {
					hookErr = err
					return
				}
				if err := w.H.Sync(); err != nil {
					hookErr = err
					return
				}
				hookErr = w.host.Contractor.WaitTip(w.H.CM)
			}
			dial := w.host.T.Dials()
			w.host.T.Interpose = mitm.Interpose(dial)
		}
		var res c16Result
		var callErr error
		timedOut := false
		if f.Kind == "stall" {
			// the caller passes a context WITHOUT a deadline (what every caller
			// does); the client's own default stream timeout (2 min, here on a
			// clock compressed by c16StallScale) is then the only thing that
			// ends a stalled exchange. On the unchanged tree the client always
			// sets it, so the call must return; not returning within a watchdog
			// far beyond it is the violation.
			w.host.T.DeadlineScale = c16StallScale
			type outcome struct {
				res c16Result
				err error
			}
			done := make(chan outcome, 1)
			started := time.Now()
			go func() {
				r, e := w.attempt(context.Background(), c)
				done <- outcome{r, e}
			}()
			var hung bool
			select {
			case o := <-done:
				res, callErr = o.res, o.err
			case <-time.After(c16StallWatchdog):
				hung = true
			}
			mitm.Release()
			if hung {
				o := <-done // the released stream lets the call unwind
				_ = o
				w.host.T.WaitIdle(c16Timeout)
				return fmt.Errorf("%s (basis %s, fault %s): the host stalled without closing the stream and the call, made with a context without deadline, had not returned after %v although the client's default stream timeout (2 min, compressed to %v here) should have ended it; the renter's reserved outputs stay locked for as long as the host keeps the connection open (the client set %d stream deadlines)",
					c.RPC, c.Basis, faultLabel(f), c16StallWatchdog, 2*time.Minute/time.Duration(c16StallScale), w.host.T.DeadlineCalls())
			}
			cs.Add("stall-return-ms", time.Since(started).Milliseconds())
			w.host.T.DeadlineScale = 0
		} else {
			ctx, cancel := context.WithTimeout(context.Background(), c16Timeout)
			res, callErr = w.attempt(ctx, c)
			timedOut = ctx.Err() != nil
			cancel()
		}
		idle := w.host.T.WaitIdle(c16Timeout)
		if mitm != nil && idle && !timedOut {
			mitm.Wait() // the hook may still be growing the host's chain
		}
		w.host.T.FailDial, w.host.T.Interpose = nil, nil
		if timedOut || !idle {
			cs.Inconclusive("watchdog")
			return nil
		}
		if mitm != nil {
			if _, _, _, h := mitm.Status(); h != "" {
				return fmt.Errorf("HARNESS: %s", h)
			}
		}
		if hookErr != nil {
			return fmt.Errorf("INFRA: advancing the host's chain: %v", hookErr)
		}
		added1, renewed1 := w.host.Contractor.Recorded()
		funded1, _, _ := w.hw.Counts()
		committed := (added1 + renewed1) - (added0 + renewed0)
		hostFunded := funded1 > funded0
		isRenewal := c.RPC != "form"
		head := fmt.Sprintf("%s (basis %s, fault %s, attempt %d)", c.RPC, c.Basis, faultLabel(f), rep+1)

		if os.Getenv("VERIF_C16_TRACE") != "" {
			fmt.Printf("TRACE %s committed=%d hostFunded=%v err=%v\n", head, committed, hostFunded, callErr)
		}
		switch {
		case callErr == nil:
			cs.Class("outcome=success")
			if c.Invalid != "" {
				return fmt.Errorf("%s succeeded although the parameters (%s) must be rejected by validation", head, c.Invalid)
			}
			if f.Kind == "stall" {
				return fmt.Errorf("HARNESS: %s succeeded although a message was withheld", head)
			}
			if spentOnHost {
				return fmt.Errorf("%s succeeded although the renter's funds are already spent on the host's chain", head)
			}
			if staleRev {
				return fmt.Errorf("%s succeeded although the renter signed for a revision the host has moved past", head)
			}
			if committed != 1 {
				return fmt.Errorf("%s returned nil but the host recorded %d contracts for it", head, committed)
			}
			tipState := w.H.CM.TipState()
			if err := bothSigned(tipState, res.contract.Revision); err != nil {
				return fmt.Errorf("%s returned nil, but the returned contract is not fully signed: %v", head, err)
			}
			hostSide, err := w.host.Contractor.Contract(res.contract.ID)
			if err != nil {
				return fmt.Errorf("%s returned nil with contract %v, the host does not hold it: %v", head, res.contract.ID, err)
			}
			if !reflect.DeepEqual(hostSide.Revision, res.contract.Revision) {
				a, _ := json.Marshal(hostSide.Revision)
				b, _ := json.Marshal(res.contract.Revision)
				return fmt.Errorf("%s returned nil, but the parties do not hold the same contract:\n host   %s\n renter %s", head, a, b)
			}
			if auxOnly {
				// the delivered set was damaged outside the contract; the
				// client cannot see that (see notes), the host's own record
				// is what gets confirmed
				cs.Excluded("returned-set-auxiliary-data-corrupted-in-transit")
				hs, _ := w.host.Contractor.LastSet(isRenewal)
				if err := w.confirm(c, head+": the set the host recorded", res.contract.ID, res.contract.Revision, hs, &res.cost); err != nil {
					return err
				}
				return nil
			}
			if err := w.confirm(c, head+": the returned set", res.contract.ID, res.contract.Revision, res.set, &res.cost); err != nil {
				return err
			}
			if hostFunded && c.Basis != "same" {
				cs.Class("success-with-rebased-inputs")
				if c.Unconf {
					cs.Class("success-with-rebased-unconfirmed-inputs")
				}
			}
			return nil

		case committed > 0:
			// the host reached its commit point, the renter did not get (or
			// rejected) the final message
			cs.Class("outcome=host-committed-renter-failed")
			if !(f.Dir == rhpc.H2R && f.Index == 1 && (f.Kind == "cut" || f.Kind == "corrupt" || f.Kind == "stall")) {
				return fmt.Errorf("%s: the client failed (%v) although nothing interfered with the final message, and the host recorded a contract", head, callErr)
			}
			hs, ok := w.host.Contractor.LastSet(isRenewal)
			if !ok {
				return fmt.Errorf("HARNESS: no recorded set")
			}
			lastTxn := hs.Transactions[len(hs.Transactions)-1]
			var id types.FileContractID
			var fc types.V2FileContract
			if isRenewal {
				id = w.existingID.V2RenewalID()
				fc = lastTxn.FileContractResolutions[0].Resolution.(*types.V2FileContractRenewal).NewContract
			} else {
				id = lastTxn.V2FileContractID(lastTxn.ID(), 0)
				fc = lastTxn.FileContracts[0]
			}
			if err := bothSigned(w.H.CM.TipState(), fc); err != nil {
				return fmt.Errorf("%s: the contract the host recorded is not fully signed: %v", head, err)
			}
			if err := w.confirm(c, head+": the set the host recorded", id, fc, hs, nil); err != nil {
				return err
			}
			renterAfter, _ := w.R.View()
			if d := renterBefore.Diff(renterAfter); d != "" {
				return fmt.Errorf("%s failed on the renter side (%v) but the renter's wallet did not return to its pre-attempt state: %s", head, callErr, d)
			}
			if d := w.R.ProbeReservations(true); d != "" {
				return fmt.Errorf("%s failed on the renter side (%v) but the renter's wallet still holds reservations: %s", head, callErr, d)
			}
			if followUp {
				return nil
			}
			// the renter, unaware of the host's pooled set, tries again without
			// any fault: its released inputs now conflict with the host's pool
			// (or the contract is already renewed), which the host only finds
			// out after funding; that attempt is judged like any other
			followUp = true
			f = rhpc.Fault{}
			reps = rep + 2
			cs.Class("follow-up-attempt-after-host-commit")

		default:
			cs.Class("outcome=failure")
			if hostFunded {
				cs.Class("failure-after-host-funded")
				cs.NonTrivial()
			}
			hostAfter, _ := w.H.View()
			renterAfter, _ := w.R.View()
			if d := hostBefore.Diff(hostAfter); d != "" {
				return fmt.Errorf("%s failed (%v) and no contract was recorded, but the host's wallet did not return to its pre-attempt state: %s", head, callErr, d)
			}
			if d := renterBefore.Diff(renterAfter); d != "" {
				return fmt.Errorf("%s failed (%v) and no contract was recorded, but the renter's wallet did not return to its pre-attempt state: %s", head, callErr, d)
			}
			// reservations of unconfirmed outputs do not show in either view:
			// a clean attempt right after the failure must be fundable
			if d := w.R.ProbeReservations(true); d != "" {
				return fmt.Errorf("%s failed (%v) and no contract was recorded, but the renter's wallet still holds reservations: %s", head, callErr, d)
			}
			if d := w.H.ProbeReservations(false); d != "" {
				return fmt.Errorf("%s failed (%v) and no contract was recorded, but the host's wallet still holds reservations: %s", head, callErr, d)
			}
			if (f.Kind == "" || f.Kind == "advance") && !followUp && !spentOnHost && !staleRev && c.Invalid == "" && c.Existing == "" && (c.Basis == "same" || c.Basis == "behind" || (c.Basis == "stale" && !c.OnFork)) {
				// nothing stands in the way of this exchange
				return fmt.Errorf("non-vacuity: %s without any fault failed: %v", head, callErr)
			}
		}
	}
	return nil
}

var c16Assumptions = []string{
	"real rhp4.Server over the repository's reference Contractor / sector store / settings reporter, real chain.Manager per party on the all-v2 test network, real SingleAddressWallet for host and renter; wallets are advanced synchronously by the harness; blocks are built by the harness (no wall clock, no randomness)",
	"a fault is one of: the stream dial fails; the connection breaks instead of delivering message k of either direction (either side stops at that boundary); message k is withheld and nothing is closed (the other side stalls: the call is then made with a context without deadline and the client's own 2-minute default stream timeout, on a clock compressed 400x, must end it - not returning within 20 s is a violation); message k of either direction is decoded, changed and re-encoded by a typed man-in-the-middle",
	"'failure' means the host did not reach its commit point (no contract recorded). When the final host message is lost or rejected after the host committed and broadcast, the host keeps the contract (server.go documents this); the check then requires the host's recorded set to confirm and the renter's wallet to be restored",
	"corruptions of the final message that leave every contract field and signature intact and damage only auxiliary transaction data (basis, input signatures, the renter's own signature copy) are counted under excluded_by_construction: the client has no chain access to detect them; the host's recorded set is confirmed instead",
	"the stale-unapplied relation (host stored the renter's branch without ever applying it) and funds created on the renter's fork are expected host-side rejections",
}

var c16Prop = kit.Prop[C16Case]{
	ID:          "C16",
	Rule:        "form / renew / refresh (full and partial) between the real client and the real server: drawn allowance / collateral / proof height (valid, rejected by validation, or not fundable by host or renter), existing contract of 0..2 sectors that is confirmed, formed-but-unmined or reorganised away, basis relation (same tip; renter k blocks behind; renter on a stale fork the host applied and left; stale fork the host stored but never applied; basis unknown to the host), renter funds confirmed or unconfirmed with parents (optionally created on the renter's fork, with the parent already confirmed on the host's chain or already in the host's pool, or funds already spent on the host's chain), optionally a renter view of the contract that is one revision behind, wallets fragmented into small outputs, and one disturbance (none; dial failure; renter pool failure; host chain advancing while a renter message is in flight; connection cut at each of the four message boundaries; one of the four messages corrupted by the typed MITM). Success => both parties hold the same fully signed contract, the returned set is accepted by an independent node's pool at its basis and, mined, creates exactly that contract with core's funding split. Failure => no contract recorded and SpendableOutputs / Balance().Spendable of both wallets equal their pre-attempt values, also over repeated attempts and in a fault-free follow-up after the host committed. An exchange with nothing in its way must succeed. Non-trivial = failure after the host reserved inputs, basis != host tip, or an existing contract without a state element; distinct by case hash.",
	Assumptions: c16Assumptions,
	Gen:         genC16,
	Run:         runC16,
}

func TestC16(t *testing.T) { c16Prop.Main(t) }

// TestC16Enum: every RPC x every fault (boundary x side, every corruption
// family, dial failure, none) on the same tip, and every basis relation x
// funding mode without a fault and with the cut after the host funded.
func TestC16Enum(t *testing.T) {
	d := kit.NewDirect(t, "C16", "enumeration: every RPC x {no fault, dial failure, renter pool failure, cut at each boundary of each side, every corruption family of each message} on the same tip with confirmed inputs; every RPC x every basis relation x {confirmed, unconfirmed, funds on fork} x {no fault, cut before the renter's signatures, bogus basis}; every RPC x every parameter rejection; every RPC x {same, behind, stale} x {confirmed, unconfirmed} x host chain advancing under the request / the renter's signatures; every RPC x {behind, stale} x unconfirmed funds whose parent the host's chain already confirmed; every non-form RPC x {unmined, reorged} existing contract x {same, behind, unknown} x {no fault, cut} with host cost > 0", c16Assumptions...)
	d.St.Exhaustive = true
	defer d.Done()
	all := os.Getenv("VERIF_C16_ALL") != ""
	var failures []string
	shard, shards := 0, 1
	if v, err := strconv.Atoi(os.Getenv("VERIF_SHARDS")); err == nil && v > 1 {
		shards = v
		shard, _ = strconv.Atoi(os.Getenv("VERIF_SHARD"))
	}
	unit := 0
	run := func(c C16Case) {
		unit++
		if (unit-1)%shards != shard {
			return
		}
		cs := &kit.CaseStats{}
		err := c16Prop.SafeRun(c, cs)
		if err != nil && all {
			js, _ := json.Marshal(c)
			failures = append(failures, fmt.Sprintf("%s\n    %s", js, strings.SplitN(err.Error(), "\n", 2)[0]))
			err = nil
		}
		d.Case(c, cs, err)
	}
	for _, rpc := range c16RPCs {
		base := C16Case{RPC: rpc, Allow: 30, Coll: 40, Proof: 7, Sectors: 1, Basis: "same", Reps: 1}
		var faults []rhpc.Fault
		faults = append(faults, rhpc.Fault{}, rhpc.Fault{Kind: "dial"}, rhpc.Fault{Kind: "txpool"})
		for dir := 0; dir < 2; dir++ {
			for idx := 0; idx < 2; idx++ {
				faults = append(faults, rhpc.Fault{Kind: "cut", Dir: dir, Index: idx})
				faults = append(faults, rhpc.Fault{Kind: "stall", Dir: dir, Index: idx})
				for _, m := range rhpc.FormationMuts(exchangeOf(rpc), dir, idx) {
					faults = append(faults, rhpc.Fault{Kind: "corrupt", Dir: dir, Index: idx, Mut: m})
				}
			}
		}
		for _, f := range faults {
			c := base
			c.Fault = f
			run(c)
		}
		for _, b := range c16Bases {
			for mode := 0; mode < 3; mode++ {
				c := base
				c.Basis, c.K = b, 2
				c.Unconf = mode == 1
				c.OnFork = mode == 2
				if c.OnFork && b != "stale" && b != "unknown" && b != "stale-unapplied" {
					continue
				}
				for _, f := range []rhpc.Fault{{}, {Kind: "cut", Dir: rhpc.R2H, Index: 1}, {Kind: "corrupt", Dir: rhpc.R2H, Index: 0, Mut: "basis-bogus"}} {
					c.Fault = f
					run(c)
				}
			}
		}
		for _, inv := range c16Invalid {
			c := base
			c.Invalid = inv
			run(c)
		}
		for _, b := range []string{"same", "behind", "stale"} {
			for idx := 0; idx < 2; idx++ {
				for _, unconf := range []bool{false, true} {
					c := base
					c.Basis, c.K, c.Unconf, c.Coll = b, 1, unconf, 90
					c.Fault = rhpc.Fault{Kind: "advance", Dir: rhpc.R2H, Index: idx, A: 2}
					run(c)
				}
			}
		}
		for _, b := range []string{"behind", "stale"} {
			for k := 1; k <= 2; k++ {
				for _, f := range []rhpc.Fault{{}, {Kind: "cut", Dir: rhpc.R2H, Index: 1}, {Kind: "advance", Dir: rhpc.R2H, Index: 1, A: 1}} {
					c := base
					c.Basis, c.K, c.Unconf, c.ParentMined, c.Coll, c.Fault = b, k, true, true, 90, f
					run(c)
				}
			}
		}
		for _, b := range []string{"same", "behind", "stale"} {
			for _, f := range []rhpc.Fault{{}, {Kind: "cut", Dir: rhpc.R2H, Index: 1}} {
				c := base
				c.Basis, c.K, c.Coll, c.Fault, c.Reps = b, 1, 90, f, 2
				c1 := c
				c1.Unconf, c1.ParentPooled = true, true
				run(c1)
				c2 := c
				c2.Frag = true
				run(c2)
				c3 := c
				c3.Frag, c3.Unconf = true, true
				run(c3)
				if b != "same" {
					c4 := c
					c4.SpentOnHost = true
					run(c4)
				}
				if rpc != "form" {
					c5 := c
					c5.StaleRevision = true
					run(c5)
				}
			}
		}
		for _, m := range []string{"parent-sig-flip", "parents-drop"} {
			c := base
			c.Unconf = true
			c.Fault = rhpc.Fault{Kind: "corrupt", Dir: rhpc.R2H, Index: 0, Mut: m}
			run(c)
		}
		if rpc != "form" {
			// the host can lock the existing contract but has no state element
			// for it; host cost > 0 (collateral above the existing one)
			for _, ex := range []string{"unmined", "reorged"} {
				for _, b := range []string{"same", "behind", "unknown"} {
					for _, f := range []rhpc.Fault{{}, {Kind: "cut", Dir: rhpc.R2H, Index: 1}} {
						c := base
						c.Existing, c.Basis, c.K, c.Coll, c.Reps, c.Fault = ex, b, 1, 90, 3, f
						run(c)
					}
				}
			}
		}
	}
	if len(failures) > 0 {
		t.Fatalf("%d failing cases:\n%s", len(failures), strings.Join(failures, "\n"))
	}
}
