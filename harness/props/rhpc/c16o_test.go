package prhpc

import (
	"context"
	"fmt"
	"os"
	"reflect"
	"strings"
	"testing"
	"time"

	"go.sia.tech/core/consensus"
	proto4 "go.sia.tech/core/rhp/v4"
	"go.sia.tech/core/types"
	rhp4 "go.sia.tech/coreutils/rhp/v4"

	"verif/kit"
	"verif/rhpc"
)

// C16OverlapCase: one renter whose only funds are unconfirmed pool outputs
// forms contracts with two hosts (separate chain managers and pools) in
// overlapping exchanges: the first exchange is held while one of its renter
// messages is in flight, the second runs to its end (or is cut) in between.
type C16OverlapCase struct {
	Allow1  int  `json:"allow1"`
	Allow2  int  `json:"allow2"`
	Coll    int  `json:"coll"`
	HoldAt  int  `json:"holdAt"`            // first exchange is held at renter message 0 (request) or 1 (signatures)
	CutSnd  bool `json:"cutSnd,omitempty"`  // the second exchange is cut before the renter's signatures reach host 2
	Outputs int  `json:"outputs,omitempty"` // the renter's sweep pays itself 2 + Outputs%3 outputs
}

type overlapHost struct {
	p    *rhpc.Party
	hw   *rhpc.RecWallet
	host *rhpc.RealHost
	st   proto4.HostSettings
}

func runC16Overlap(c C16OverlapCase, cs *kit.CaseStats) (err error) {
	n, g := rhpc.Network()
	var closers []func()
	defer func() {
		for i := len(closers) - 1; i >= 0; i-- {
			closers[i]()
		}
	}()
	R, err := rhpc.NewParty("renter", c16RenterKey, n, g)
	if err != nil {
		return fmt.Errorf("INFRA: %v", err)
	}
	closers = append(closers, R.Close)
	I, err := rhpc.NewNode("independent", n, g)
	if err != nil {
		return fmt.Errorf("INFRA: %v", err)
	}
	var hosts [2]*overlapHost
	nodes := []*rhpc.Node{R.Node, I}
	for i := range hosts {
		p, err := rhpc.NewParty(fmt.Sprintf("host%d", i+1), rhpc.Key(fmt.Sprintf("c16-overlap-host-wallet-%d", i)), n, g)
		if err != nil {
			return fmt.Errorf("INFRA: %v", err)
		}
		closers = append(closers, p.Close)
		h := &overlapHost{p: p, hw: &rhpc.RecWallet{Wallet: p.W}}
		h.host = rhpc.NewRealHost(rhpc.Key(fmt.Sprintf("c16-overlap-host-id-%d", i)), p.CM, h.hw, rhpc.DefaultSettings(p.Addr()))
		closers = append(closers, h.host.Close)
		hosts[i] = h
		nodes = append(nodes, p.Node)
	}
	salt := uint64(0)
	grow := func(cnt int, addr types.Address, txns []types.V2Transaction) error {
		for i := 0; i < cnt; i++ {
			salt++
			b := rhpc.MineOn(nodes[0].CM.TipState(), addr, txns, salt)
			txns = nil
			for _, nd := range nodes {
				if err := nd.CM.AddBlocks([]types.Block{b}); err != nil {
					return fmt.Errorf("%s rejected harness block: %w", nd.Name, err)
				}
			}
		}
		return nil
	}
	for _, step := range []struct {
		n    int
		addr types.Address
	}{{2, hosts[0].p.Addr()}, {2, hosts[1].p.Addr()}, {3, R.Addr()}, {int(n.MaturityDelay) + 1, rhpc.VoidAddr}} {
		if err := grow(step.n, step.addr, nil); err != nil {
			return fmt.Errorf("INFRA: %v", err)
		}
	}
	sync := func() error {
		if err := R.Sync(); err != nil {
			return err
		}
		for _, h := range hosts {
			if err := h.p.Sync(); err != nil {
				return err
			}
			if err := h.host.Contractor.WaitTip(h.p.CM); err != nil {
				return err
			}
		}
		return nil
	}
	if err := sync(); err != nil {
		return fmt.Errorf("INFRA: %v", err)
	}
	ctx, cancel := context.WithTimeout(context.Background(), c16Timeout)
	defer cancel()
	for _, h := range hosts {
		if h.st, err = rhp4.RPCSettings(ctx, h.host.T); err != nil {
			return fmt.Errorf("INFRA: settings: %v", err)
		}
		h.host.T.WaitIdle(10 * time.Second)
	}

	// the renter's only funds: outputs of a pooled, unconfirmed sweep
	tip := R.CM.TipState()
	outs, err := R.W.SpendableOutputs()
	if err != nil || len(outs) == 0 {
		return fmt.Errorf("INFRA: renter has no outputs: %v", err)
	}
	var sweep types.V2Transaction
	var sum types.Currency
	for _, o := range outs {
		sweep.SiacoinInputs = append(sweep.SiacoinInputs, types.V2SiacoinInput{Parent: o.Copy()})
		sum = sum.Add(o.SiacoinOutput.Value)
	}
	sweep.MinerFee = types.Siacoins(1)
	k := 2 + mod(c.Outputs, 3)
	rest := sum.Sub(sweep.MinerFee)
	for i := 0; i < k; i++ {
		v := rest.Div64(uint64(k - i + 1))
		if i == k-1 {
			v = rest
		}
		sweep.SiacoinOutputs = append(sweep.SiacoinOutputs, types.SiacoinOutput{Address: R.Addr(), Value: v})
		rest = rest.Sub(v)
	}
	sh := tip.InputSigHash(sweep)
	for i := range sweep.SiacoinInputs {
		sweep.SiacoinInputs[i].SatisfiedPolicy = types.SatisfiedPolicy{Policy: R.W.SpendPolicy(), Signatures: []types.Signature{c16RenterKey.SignHash(sh)}}
	}
	if _, err := R.CM.AddV2PoolTransactions(R.CM.Tip(), []types.V2Transaction{sweep}); err != nil {
		return fmt.Errorf("INFRA: renter pool rejected its sweep: %v", err)
	}

	signer := &rhpc.FundAndSign{W: R.W, PK: c16ContractKey}
	form := func(h *overlapHost, allow int) (rhp4.RPCFormContractResult, error) {
		return rhp4.RPCFormContract(ctx, h.host.T, R.CM, signer, R.CM.TipState(), h.st.Prices, h.host.Key.PublicKey(), h.st.WalletAddress, proto4.RPCFormContractParams{
			RenterPublicKey: c16ContractKey.PublicKey(), RenterAddress: R.Addr(),
			Allowance: types.Siacoins(uint32(20 + mod(allow, 150))), Collateral: types.Siacoins(uint32(mod(c.Coll, 60))),
			ProofHeight: h.p.CM.Tip().Height + 40,
		})
	}
	var views [2]rhpc.WalletView
	for i, h := range hosts {
		if views[i], err = h.p.View(); err != nil {
			return fmt.Errorf("INFRA: %v", err)
		}
	}

	// second exchange, run from inside the first one
	var res [2]rhp4.RPCFormContractResult
	var errs [2]error
	ranSecond := false
	second := func() {
		ranSecond = true
		h := hosts[1]
		if c.CutSnd {
			m := &rhpc.MITM{Ex: rhpc.Exchanges["form"], Fault: rhpc.Fault{Kind: "cut", Dir: rhpc.R2H, Index: 1}, Mutate: rhpc.FormationMutate}
			h.host.T.Interpose = m.Interpose(h.host.T.Dials())
			res[1], errs[1] = form(h, c.Allow2)
			h.host.T.WaitIdle(c16Timeout)
			m.Wait()
			h.host.T.Interpose = nil
			return
		}
		res[1], errs[1] = form(h, c.Allow2)
		h.host.T.WaitIdle(c16Timeout)
	}
	hold := &rhpc.MITM{Ex: rhpc.Exchanges["form"], Fault: rhpc.Fault{Kind: "advance", Dir: rhpc.R2H, Index: c.HoldAt & 1}, Hook: second}
	hosts[0].host.T.Interpose = hold.Interpose(hosts[0].host.T.Dials())
	res[0], errs[0] = form(hosts[0], c.Allow1)
	idle := hosts[0].host.T.WaitIdle(c16Timeout)
	hold.Wait()
	hosts[0].host.T.Interpose = nil
	if ctx.Err() != nil || !idle {
		cs.Inconclusive("watchdog")
		return nil
	}
	if !ranSecond {
		return fmt.Errorf("HARNESS: the first exchange never reached the point where the second one starts (%v)", errs[0])
	}
	cs.Classf("hold-at=r2h%d", c.HoldAt&1)
	cs.Classf("second-cut=%v", c.CutSnd)
	cs.Classf("renter-outputs=%d", k)
	cs.NonTrivial()

	// per exchange
	var okSets []rhp4.TransactionSet
	used := map[types.SiacoinOutputID]int{}
	for i, h := range hosts {
		head := fmt.Sprintf("overlapping formation %d of 2 (first held at renter message %d, second cut=%v)", i+1, c.HoldAt&1, c.CutSnd)
		added, _ := h.host.Contractor.Recorded()
		if errs[i] != nil {
			cs.Classf("exchange%d=failed", i+1)
			if added != 0 {
				return fmt.Errorf("%s failed (%v) but host %d recorded a contract", head, errs[i], i+1)
			}
			after, _ := h.p.View()
			if d := views[i].Diff(after); d != "" {
				return fmt.Errorf("%s failed (%v) but host %d's wallet did not return to its pre-attempt state: %s", head, errs[i], i+1, d)
			}
			if d := h.p.ProbeReservations(false); d != "" {
				return fmt.Errorf("%s failed (%v) but host %d's wallet still holds reservations: %s", head, errs[i], i+1, d)
			}
			if !(i == 1 && c.CutSnd) {
				return fmt.Errorf("non-vacuity: %s failed although nothing interfered with it: %v", head, errs[i])
			}
			continue
		}
		cs.Classf("exchange%d=success", i+1)
		if i == 1 && c.CutSnd {
			return fmt.Errorf("HARNESS: the cut second exchange succeeded")
		}
		if err := bothSigned(h.p.CM.TipState(), res[i].Contract.Revision); err != nil {
			return fmt.Errorf("%s returned nil, but the returned contract is not fully signed: %v", head, err)
		}
		st, err := h.host.Contractor.Contract(res[i].Contract.ID)
		if err != nil || !reflect.DeepEqual(st.Revision, res[i].Contract.Revision) {
			return fmt.Errorf("%s returned nil, but host %d does not hold the same contract (%v)", head, i+1, err)
		}
		okSets = append(okSets, res[i].FormationSet)
		last := res[i].FormationSet.Transactions[len(res[i].FormationSet.Transactions)-1]
		for _, in := range last.SiacoinInputs {
			if in.Parent.SiacoinOutput.Address == R.Addr() {
				used[in.Parent.ID]++
				if used[in.Parent.ID] > 1 {
					return fmt.Errorf("%s: both successful formations spend the renter's output %v (value %v): at most one of the two contracts can ever be confirmed", head, in.Parent.ID, in.Parent.SiacoinOutput.Value)
				}
			}
		}
	}
	// the successful sets must be confirmable together
	for i, set := range okSets {
		if _, err := I.CM.AddV2PoolTransactions(set.Basis, set.Transactions); err != nil {
			return fmt.Errorf("the returned set of successful formation %d of %d is rejected by an independent pool that already holds the other successful formation's set: %v", i+1, len(okSets), err)
		}
	}
	if len(okSets) > 0 {
		before := I.CM.Tip()
		salt++
		b := rhpc.MineOn(I.CM.TipState(), rhpc.VoidAddr, I.CM.V2PoolTransactions(), salt)
		if err := I.CM.AddBlocks([]types.Block{b}); err != nil {
			return fmt.Errorf("the block containing the successful formation sets is invalid: %v", err)
		}
		_, applied, err := I.CM.UpdatesSince(before, 10)
		if err != nil || len(applied) != 1 {
			return fmt.Errorf("HARNESS: UpdatesSince: %v", err)
		}
		created := map[types.FileContractID]bool{}
		for _, d := range applied[0].V2FileContractElementDiffs() {
			if d.Created {
				created[d.V2FileContractElement.ID] = true
			}
		}
		for i := range hosts {
			if errs[i] == nil && !created[res[i].Contract.ID] {
				return fmt.Errorf("mined together, the successful formations do not all create their contract (formation %d missing)", i+1)
			}
		}
	}
	// whatever the renter's wallet is still willing to fund with must not be
	// an input of a successful formation (its reservation must have survived
	// the other exchange's release)
	var probes []types.V2Transaction
	defer func() { R.W.ReleaseInputs(nil, probes) }()
	for i := 0; i < 16; i++ {
		var txn types.V2Transaction
		if _, _, err := R.W.FundV2Transaction(&txn, types.NewCurrency64(1), true); err != nil {
			break
		}
		probes = append(probes, txn)
		for _, in := range txn.SiacoinInputs {
			if used[in.Parent.ID] > 0 {
				return fmt.Errorf("after the overlapping exchanges the renter's wallet offers output %v (value %v) for new funding although a successful formation spends it: its reservation was released by the other exchange", in.Parent.ID, in.Parent.SiacoinOutput.Value)
			}
		}
	}
	if len(okSets) == 0 {
		if d := R.ProbeReservations(true); len(probes) == 0 && d != "" {
			return fmt.Errorf("both formations failed but the renter's wallet still holds reservations: %s", d)
		}
	}
	return nil
}

var _ = consensus.State{}

// TestC16Overlap enumerates the overlapping-formation scenario.
func TestC16Overlap(t *testing.T) {
	d := kit.NewDirect(t, "C16", "two overlapping formations by one renter whose only funds are unconfirmed pool outputs, against two hosts with separate chain managers and pools: the first exchange is held while its request / its signatures are in flight, the second runs to its end or is cut in between. Every successful formation's set must be accepted by an independent pool that holds the other successful set and confirm when mined together; successful formations must not share a renter output; a failed one leaves no trace on its host; the renter's wallet must not offer an output of a successful formation for new funding", c16Assumptions...)
	d.St.Exhaustive = true
	defer d.Done()
	if f := os.Getenv("VERIF_REPLAY"); f != "" {
		for _, path := range strings.Split(f, ":") {
			c, err := kit.LoadReplay[C16OverlapCase](path)
			if err != nil {
				t.Fatalf("INFRA cannot load replay %s: %v", path, err)
			}
			cs := &kit.CaseStats{}
			if err := (kit.Prop[C16OverlapCase]{Run: runC16Overlap}).SafeRun(c, cs); err != nil {
				fmt.Printf("REPLAY-FAIL property=C16 file=%s\n%v\n", path, err)
				t.Errorf("replay %s failed: %v", path, err)
			} else {
				fmt.Printf("REPLAY-OK property=C16 file=%s\n", path)
			}
		}
		return
	}
	for hold := 0; hold < 2; hold++ {
		for _, cut := range []bool{false, true} {
			for outs := 0; outs < 3; outs++ {
				for v := 0; v < 2; v++ {
					c := C16OverlapCase{Allow1: 30 + 50*v, Allow2: 90 - 40*v, Coll: 10 + 25*v, HoldAt: hold, CutSnd: cut, Outputs: outs}
					cs := &kit.CaseStats{}
					err := kit.Prop[C16OverlapCase]{Run: runC16Overlap}.SafeRun(c, cs)
					d.Case(c, cs, err)
				}
			}
		}
	}
}

// ---------------------------------------------------------------- concurrent

// C16ConcurrentCase: N formations started at the same moment from ONE renter
// wallet (store reads take Latency) against N hosts with separate managers and
// pools.
type C16ConcurrentCase struct {
	N       int  `json:"n"`                // 2..4 simultaneous formations
	Unconf  bool `json:"unconf,omitempty"` // the renter's funds are the outputs of a pooled sweep
	Spare   int  `json:"spare,omitempty"`  // renter outputs beyond N (0..2)
	Latency int  `json:"latencyMs"`        // wallet store read latency in ms (1..3)
	Allow   int  `json:"allow"`
}

func runC16Concurrent(c C16ConcurrentCase, cs *kit.CaseStats) (err error) {
	nHosts := 2 + mod(c.N-2, 3)
	nOut := nHosts + mod(c.Spare, 3)
	lat := time.Duration(1+mod(c.Latency-1, 3)) * time.Millisecond
	n, g := rhpc.Network()
	var closers []func()
	defer func() {
		for i := len(closers) - 1; i >= 0; i-- {
			closers[i]()
		}
	}()
	R, err := rhpc.NewPartyLatency("renter", c16RenterKey, n, g, lat)
	if err != nil {
		return fmt.Errorf("INFRA: %v", err)
	}
	closers = append(closers, R.Close)
	I, err := rhpc.NewNode("independent", n, g)
	if err != nil {
		return fmt.Errorf("INFRA: %v", err)
	}
	hosts := make([]*overlapHost, nHosts)
	nodes := []*rhpc.Node{R.Node, I}
	for i := range hosts {
		p, err := rhpc.NewParty(fmt.Sprintf("host%d", i+1), rhpc.Key(fmt.Sprintf("c16-conc-host-wallet-%d", i)), n, g)
		if err != nil {
			return fmt.Errorf("INFRA: %v", err)
		}
		closers = append(closers, p.Close)
		h := &overlapHost{p: p, hw: &rhpc.RecWallet{Wallet: p.W}}
		h.host = rhpc.NewRealHost(rhpc.Key(fmt.Sprintf("c16-conc-host-id-%d", i)), p.CM, h.hw, rhpc.DefaultSettings(p.Addr()))
		closers = append(closers, h.host.Close)
		hosts[i] = h
		nodes = append(nodes, p.Node)
	}
	salt := uint64(0)
	grow := func(cnt int, addr types.Address) error {
		for i := 0; i < cnt; i++ {
			salt++
			b := rhpc.MineOn(nodes[0].CM.TipState(), addr, nil, salt)
			for _, nd := range nodes {
				if err := nd.CM.AddBlocks([]types.Block{b}); err != nil {
					return fmt.Errorf("%s rejected harness block: %w", nd.Name, err)
				}
			}
		}
		return nil
	}
	for _, h := range hosts {
		if err := grow(2, h.p.Addr()); err != nil {
			return fmt.Errorf("INFRA: %v", err)
		}
	}
	// block rewards shrink with the height, so the renter's outputs have
	// distinct sizes and "largest first" selection is deterministic
	if err := grow(nOut, R.Addr()); err != nil {
		return fmt.Errorf("INFRA: %v", err)
	}
	if err := grow(int(n.MaturityDelay)+1, rhpc.VoidAddr); err != nil {
		return fmt.Errorf("INFRA: %v", err)
	}
	if err := R.Sync(); err != nil {
		return fmt.Errorf("INFRA: %v", err)
	}
	for _, h := range hosts {
		if err := h.p.Sync(); err != nil {
			return fmt.Errorf("INFRA: %v", err)
		}
		if err := h.host.Contractor.WaitTip(h.p.CM); err != nil {
			return fmt.Errorf("INFRA: %v", err)
		}
	}
	ctx, cancel := context.WithTimeout(context.Background(), c16Timeout)
	defer cancel()
	for _, h := range hosts {
		if h.st, err = rhp4.RPCSettings(ctx, h.host.T); err != nil {
			return fmt.Errorf("INFRA: settings: %v", err)
		}
		h.host.T.WaitIdle(10 * time.Second)
	}
	if c.Unconf {
		// the same outputs, one pool generation later: a sweep that pays the
		// renter nOut outputs of distinct sizes
		tip := R.CM.TipState()
		outs, err := R.W.SpendableOutputs()
		if err != nil || len(outs) == 0 {
			return fmt.Errorf("INFRA: renter has no outputs: %v", err)
		}
		var sweep types.V2Transaction
		var sum types.Currency
		for _, o := range outs {
			sweep.SiacoinInputs = append(sweep.SiacoinInputs, types.V2SiacoinInput{Parent: o.Copy()})
			sum = sum.Add(o.SiacoinOutput.Value)
		}
		sweep.MinerFee = types.Siacoins(1)
		rest := sum.Sub(sweep.MinerFee)
		unit := rest.Div64(uint64(nOut * (nOut + 1) / 2))
		for i := 1; i <= nOut; i++ {
			v := unit.Mul64(uint64(i))
			if i == nOut {
				v = rest
			}
			sweep.SiacoinOutputs = append(sweep.SiacoinOutputs, types.SiacoinOutput{Address: R.Addr(), Value: v})
			rest = rest.Sub(v)
		}
		sh := tip.InputSigHash(sweep)
		for i := range sweep.SiacoinInputs {
			sweep.SiacoinInputs[i].SatisfiedPolicy = types.SatisfiedPolicy{Policy: R.W.SpendPolicy(), Signatures: []types.Signature{c16RenterKey.SignHash(sh)}}
		}
		if _, err := R.CM.AddV2PoolTransactions(R.CM.Tip(), []types.V2Transaction{sweep}); err != nil {
			return fmt.Errorf("INFRA: renter pool rejected its sweep: %v", err)
		}
	}

	signer := &rhpc.FundAndSign{W: R.W, PK: c16ContractKey}
	res := make([]rhp4.RPCFormContractResult, nHosts)
	errs := make([]error, nHosts)
	start := make(chan struct{})
	done := make(chan int, nHosts)
	for i := range hosts {
		i := i
		go func() {
			defer func() {
				if r := recover(); r != nil {
					errs[i] = fmt.Errorf("panic: %v", r)
				}
				done <- i
			}()
			<-start
			h := hosts[i]
			res[i], errs[i] = rhp4.RPCFormContract(ctx, h.host.T, R.CM, signer, R.CM.TipState(), h.st.Prices, h.host.Key.PublicKey(), h.st.WalletAddress, proto4.RPCFormContractParams{
				RenterPublicKey: c16ContractKey.PublicKey(), RenterAddress: R.Addr(),
				Allowance: types.Siacoins(uint32(20 + mod(c.Allow+13*i, 150))), Collateral: types.Siacoins(uint32(5 + 7*i)),
				ProofHeight: h.p.CM.Tip().Height + 40,
			})
		}()
	}
	close(start)
	for range hosts {
		<-done
	}
	for _, h := range hosts {
		if !h.host.T.WaitIdle(c16Timeout) {
			cs.Inconclusive("watchdog")
			return nil
		}
	}
	if ctx.Err() != nil {
		cs.Inconclusive("watchdog")
		return nil
	}
	cs.Classf("simultaneous=%d", nHosts)
	cs.Classf("renter-outputs=%d", nOut)
	cs.Classf("unconfirmed=%v", c.Unconf)
	cs.NonTrivial()

	used := map[types.SiacoinOutputID]int{}
	var okSets []rhp4.TransactionSet
	for i, h := range hosts {
		head := fmt.Sprintf("formation %d of %d started at the same moment from one renter wallet (store latency %v, %d renter outputs, unconfirmed=%v)", i+1, nHosts, lat, nOut, c.Unconf)
		if errs[i] != nil {
			// there is an output for every formation: nothing stands in its way
			return fmt.Errorf("non-vacuity: %s failed: %v", head, errs[i])
		}
		if err := bothSigned(h.p.CM.TipState(), res[i].Contract.Revision); err != nil {
			return fmt.Errorf("%s returned nil, but the returned contract is not fully signed: %v", head, err)
		}
		st, err := h.host.Contractor.Contract(res[i].Contract.ID)
		if err != nil || !reflect.DeepEqual(st.Revision, res[i].Contract.Revision) {
			return fmt.Errorf("%s returned nil, but its host does not hold the same contract (%v)", head, err)
		}
		okSets = append(okSets, res[i].FormationSet)
		last := res[i].FormationSet.Transactions[len(res[i].FormationSet.Transactions)-1]
		for _, in := range last.SiacoinInputs {
			if in.Parent.SiacoinOutput.Address == R.Addr() {
				used[in.Parent.ID]++
				if used[in.Parent.ID] > 1 {
					return fmt.Errorf("%s: it and another successful formation both spend the renter's output %v (value %v); every host recorded its contract, at most one of them can ever be confirmed", head, in.Parent.ID, in.Parent.SiacoinOutput.Value)
				}
			}
		}
	}
	for i, set := range okSets {
		if _, err := I.CM.AddV2PoolTransactions(set.Basis, set.Transactions); err != nil {
			return fmt.Errorf("the returned set of formation %d of %d is rejected by an independent pool that already holds the other formations' sets: %v", i+1, len(okSets), err)
		}
	}
	before := I.CM.Tip()
	salt++
	b := rhpc.MineOn(I.CM.TipState(), rhpc.VoidAddr, I.CM.V2PoolTransactions(), salt)
	if err := I.CM.AddBlocks([]types.Block{b}); err != nil {
		return fmt.Errorf("the block containing all formation sets is invalid: %v", err)
	}
	_, applied, err := I.CM.UpdatesSince(before, 10)
	if err != nil || len(applied) != 1 {
		return fmt.Errorf("HARNESS: UpdatesSince: %v", err)
	}
	created := map[types.FileContractID]bool{}
	for _, d := range applied[0].V2FileContractElementDiffs() {
		if d.Created {
			created[d.V2FileContractElement.ID] = true
		}
	}
	for i := range hosts {
		if !created[res[i].Contract.ID] {
			return fmt.Errorf("mined together, the formations do not all create their contract (formation %d missing)", i+1)
		}
	}
	return nil
}

// TestC16Concurrent enumerates the simultaneous-formation scenario.
func TestC16Concurrent(t *testing.T) {
	d := kit.NewDirect(t, "C16", "N = 2..4 formations started at the same moment from one renter wallet (wallet store reads take 1..3 ms, renter outputs of distinct sizes, confirmed or the outputs of a pooled sweep) against N hosts with separate chain managers and pools. Schedule-independent oracle: every formation succeeds (there is an output for each), successful formations share no renter output, their sets are all accepted by one independent pool and confirm together", c16Assumptions...)
	defer d.Done()
	prop := kit.Prop[C16ConcurrentCase]{Run: runC16Concurrent}
	if f := os.Getenv("VERIF_REPLAY"); f != "" {
		for _, path := range strings.Split(f, ":") {
			c, err := kit.LoadReplay[C16ConcurrentCase](path)
			if err != nil {
				t.Fatalf("INFRA cannot load replay %s: %v", path, err)
			}
			cs := &kit.CaseStats{}
			if err := prop.SafeRun(c, cs); err != nil {
				fmt.Printf("REPLAY-FAIL property=C16 file=%s\n%v\n", path, err)
				t.Errorf("replay %s failed: %v", path, err)
			} else {
				fmt.Printf("REPLAY-OK property=C16 file=%s\n", path)
			}
		}
		return
	}
	rounds := 2
	if kit.Thorough() {
		rounds = 8
	}
	for r := 0; r < rounds; r++ {
		for nh := 2; nh <= 4; nh++ {
			for _, unconf := range []bool{false, true} {
				c := C16ConcurrentCase{N: nh, Unconf: unconf, Spare: (r + nh) % 3, Latency: 1 + (r+nh)%3, Allow: 17*r + 5*nh}
				cs := &kit.CaseStats{}
				d.Case(c, cs, prop.SafeRun(c, cs))
			}
		}
	}
}
