package pwallet

import (
	"bytes"
	"fmt"
	"sync"
	"testing"

	"go.sia.tech/coreutils/wallet"

	"verif/kit"
)

// TestC20Concurrent: "the same phrase and index always derive the same key" is
// a fact about the function, not about who else is calling it: derivation and
// phrase decoding from several goroutines at once (several wallets served by
// one process, a parallel look-ahead scan) must give exactly the results of
// sequential calls. Schedule-independent oracle: every single result is
// compared with the reference implementation.
func TestC20Concurrent(t *testing.T) {
	d := kit.NewDirect(t, "C20", "concurrent family: 8 goroutines each derive keys for 4 seeds x 1500 indices and decode/encode 500 phrases at the same time; every result is compared with the reference implementation (schedule-independent)")
	defer d.Done()
	type ccase struct {
		Workers int `json:"workers"`
		Round   int `json:"round"`
	}
	for round := 0; round < 3; round++ {
		cc := ccase{Workers: 8, Round: round}
		cs := &kit.CaseStats{}
		cs.NonTrivial()
		var seeds [4][32]byte
		for i := range seeds {
			var e [16]byte
			e[0], e[1], e[15] = byte(i+1), byte(round), byte(7*i)
			seeds[i] = refSeed(e)
		}
		var mu sync.Mutex
		var first error
		fail := func(err error) {
			mu.Lock()
			if first == nil {
				first = err
			}
			mu.Unlock()
		}
		var wg sync.WaitGroup
		for w := 0; w < cc.Workers; w++ {
			wg.Add(1)
			go func(w int) {
				defer wg.Done()
				defer func() {
					if r := recover(); r != nil {
						fail(fmt.Errorf("worker %d panicked: %v", w, r))
					}
				}()
				for k := 0; k < 1500; k++ {
					si := (w + k) % len(seeds)
					seed := seeds[si]
					index := uint64(k*7+w) << (uint(k) % 40)
					got := wallet.KeyFromSeed(&seed, index)
					if want := refKey(seeds[si], index); !bytes.Equal(got, want) {
						fail(fmt.Errorf("worker %d: KeyFromSeed(seed %d, index %d) while %d goroutines derive keys = %x, reference %x", w, si, index, cc.Workers, []byte(got), []byte(want)))
						return
					}
					if k%3 == 0 {
						var e [16]byte
						e[0], e[3], e[9] = byte(k), byte(w), byte(k>>8)
						phrase := refPhrase(refEncode(e))
						var s [32]byte
						if err := wallet.SeedFromPhrase(&s, phrase); err != nil || s != refSeed(e) {
							fail(fmt.Errorf("worker %d: SeedFromPhrase(%q) while %d goroutines are at work: err=%v seed=%x, reference %x", w, phrase, cc.Workers, err, s, refSeed(e)))
							return
						}
					}
				}
			}(w)
		}
		wg.Wait()
		cs.Add("derivations", int64(cc.Workers*1500))
		d.Case(cc, cs, first)
	}
}
