package pwallet

import (
	"bytes"
	"crypto/ed25519"
	"crypto/sha256"
	_ "embed"
	"encoding/binary"
	"encoding/hex"
	"fmt"
	"math/big"
	"strings"
	"testing"

	"go.sia.tech/core/types"
	"go.sia.tech/coreutils/wallet"
	"golang.org/x/crypto/blake2b"
	"pgregory.net/rapid"

	"verif/kit"
)

// The canonical BIP-39 English word list (sha256 of the file is the published
// 2f5eed53…dbda; asserted in init). It is the harness' own copy, so a change to
// the list in the repository is a differential failure.
//
//go:embed bip39_english.txt
var bip39English string

var refWords []string
var refIndex = map[string]int{}

func init() {
	h := sha256.Sum256([]byte(bip39English))
	if hex.EncodeToString(h[:]) != "2f5eed53a4727b4bf8880d8f3f199efc90e58503646d9ff8eff3a2ed3b24dbda" {
		panic("harness BIP-39 list corrupted")
	}
	refWords = strings.Fields(bip39English)
	if len(refWords) != 2048 {
		panic("harness BIP-39 list length")
	}
	for i, w := range refWords {
		refIndex[w] = i
	}
}

// ---- reference implementation on big.Int bit strings ----

func refEncode(entropy [16]byte) (idx [12]int) {
	h := sha256.Sum256(entropy[:])
	n := new(big.Int).SetBytes(entropy[:])
	n.Lsh(n, 4)
	n.Or(n, big.NewInt(int64(h[0]>>4)))
	mask := big.NewInt(2047)
	for i := 11; i >= 0; i-- {
		idx[i] = int(new(big.Int).And(n, mask).Int64())
		n.Rsh(n, 11)
	}
	return
}

func refDecode(idx [12]int) (entropy [16]byte, ok bool) {
	n := new(big.Int)
	for _, w := range idx {
		n.Lsh(n, 11)
		n.Or(n, big.NewInt(int64(w)))
	}
	cs := new(big.Int).And(n, big.NewInt(15)).Int64()
	n.Rsh(n, 4)
	n.FillBytes(entropy[:])
	h := sha256.Sum256(entropy[:])
	return entropy, int64(h[0]>>4) == cs
}

func refPhrase(idx [12]int) string {
	ws := make([]string, 12)
	for i, w := range idx {
		ws[i] = refWords[w]
	}
	return strings.Join(ws, " ")
}

func refSeed(entropy [16]byte) [32]byte { return blake2b.Sum256(entropy[:]) }

func refKey(seed [32]byte, index uint64) ed25519.PrivateKey {
	buf := make([]byte, 40)
	copy(buf, seed[:])
	binary.LittleEndian.PutUint64(buf[32:], index)
	h := blake2b.Sum256(buf)
	return ed25519.NewKeyFromSeed(h[:])
}

// ---- case ----

type C20Case struct {
	Kind    string   `json:"kind"` // entropy | words | mutword | ws | malformed
	Entropy string   `json:"entropy,omitempty"`
	Words   []int    `json:"words,omitempty"`
	Pos     int      `json:"pos,omitempty"`
	Word    int      `json:"word,omitempty"`
	Seps    []string `json:"seps,omitempty"` // 13 separators: leading, 11 inner, trailing
	Bad     string   `json:"bad,omitempty"`  // malformed phrase, verbatim
	Index   uint64   `json:"index"`
}

func (c C20Case) entropy() (e [16]byte) {
	b, _ := hex.DecodeString(c.Entropy)
	copy(e[:], b)
	return
}

func (c C20Case) words() (w [12]int) {
	for i := range w {
		if i < len(c.Words) {
			w[i] = ((c.Words[i] % 2048) + 2048) % 2048
		}
	}
	return
}

var edgeIndices = []uint64{0, 1, 2, 255, 256, 1<<32 - 1, 1 << 32, 1<<32 + 1, 1<<63 - 1, 1 << 63, 1<<64 - 2, 1<<64 - 1}

func genIndex(t *rapid.T) uint64 {
	if rapid.IntRange(0, 3).Draw(t, "idxkind") == 0 {
		return rapid.SampledFrom(edgeIndices).Draw(t, "idx")
	}
	return rapid.Uint64().Draw(t, "idx")
}

func genEntropy(t *rapid.T) string {
	b := rapid.SliceOfN(rapid.Byte(), 16, 16).Draw(t, "entropy")
	return hex.EncodeToString(b)
}

func genC20(t *rapid.T) C20Case {
	c := C20Case{Index: genIndex(t)}
	switch rapid.IntRange(0, 9).Draw(t, "kind") {
	case 0, 1, 2:
		c.Kind = "entropy"
		c.Entropy = genEntropy(t)
	case 3, 4:
		c.Kind = "words"
		c.Words = rapid.SliceOfN(rapid.IntRange(0, 2047), 12, 12).Draw(t, "words")
	case 5, 6:
		c.Kind = "mutword"
		c.Entropy = genEntropy(t)
		c.Pos = rapid.IntRange(0, 11).Draw(t, "pos")
		c.Word = rapid.IntRange(0, 2047).Draw(t, "word")
	case 7, 8:
		c.Kind = "ws"
		c.Entropy = genEntropy(t)
		// short and long runs: indentation, column alignment, padded copies
		seps := []string{" ", "  ", "\t", "\n", " \t ", "\r\n", "\v", "\f", "\n    ", "\t\t\t\t", strings.Repeat(" ", 9), strings.Repeat(" ", 24), "\n\n\n"}
		pads := []string{"", " ", "\n\t", "   ", strings.Repeat(" ", 40), strings.Repeat("\n", 12), strings.Repeat("\t ", 30)}
		c.Seps = make([]string, 13)
		c.Seps[0] = pads[kit.Uniform(t, len(pads), "lead")]
		long := kit.Chance(t, 40, "longruns")
		for i := 1; i < 12; i++ {
			if long {
				c.Seps[i] = seps[kit.Uniform(t, len(seps), "sep")]
			} else {
				c.Seps[i] = seps[kit.Uniform(t, 8, "sep")]
			}
		}
		c.Seps[12] = pads[kit.Uniform(t, len(pads), "trail")]
	default:
		c.Kind = "malformed"
		c.Entropy = genEntropy(t)
		idx := refEncode(c.entropy())
		ws := strings.Fields(refPhrase(idx))
		switch rapid.IntRange(0, 6).Draw(t, "bad") {
		case 0:
			ws = ws[:rapid.IntRange(0, 11).Draw(t, "n")]
		case 1:
			n := rapid.IntRange(1, 4).Draw(t, "extra")
			for i := 0; i < n; i++ {
				ws = append(ws, refWords[rapid.IntRange(0, 2047).Draw(t, "w")])
			}
		case 2:
			p := rapid.IntRange(0, 11).Draw(t, "p")
			ws[p] = strings.ToUpper(ws[p][:1]) + ws[p][1:]
		case 3:
			p := rapid.IntRange(0, 11).Draw(t, "p")
			ws[p] = strings.ToUpper(ws[p])
		case 4:
			p := rapid.IntRange(0, 11).Draw(t, "p")
			ws[p] = ws[p] + rapid.SampledFrom([]string{"x", "s", "-", ".", ",", "1", "ed", "ing", "\x00", "\x00\x00\x00", "\x00\x00\x00\x00\x00", "\u00a0", "\u200b"}).Draw(t, "suffix")
		case 5:
			p := rapid.IntRange(0, 11).Draw(t, "p")
			ws[p] = rapid.StringMatching(`[a-z]{1,9}`).Draw(t, "nonword")
		case 6:
			// two words glued together without a separator
			p := rapid.IntRange(0, 10).Draw(t, "p")
			ws = append(ws[:p], append([]string{ws[p] + ws[p+1]}, ws[p+2:]...)...)
		}
		c.Bad = strings.Join(ws, " ")
	}
	return c
}

// checkWords is the core oracle for one 12-word sequence.
func checkWords(idx [12]int, index uint64) error {
	phrase := refPhrase(idx)
	wantEntropy, valid := refDecode(idx)
	var got [16]byte
	err := wallet.VerifDecodeBIP39Phrase(&got, phrase)
	if valid != (err == nil) {
		return fmt.Errorf("decode(%q): reference says valid=%v, decoder returned err=%v", phrase, valid, err)
	}
	var seed [32]byte
	serr := wallet.SeedFromPhrase(&seed, phrase)
	if (serr == nil) != valid {
		return fmt.Errorf("SeedFromPhrase(%q): reference says valid=%v, got err=%v", phrase, valid, serr)
	}
	if !valid {
		return nil
	}
	if got != wantEntropy {
		return fmt.Errorf("decode(%q) = %x, reference %x", phrase, got, wantEntropy)
	}
	if re := wallet.VerifEncodeBIP39Phrase(&got); re != phrase {
		return fmt.Errorf("encode(decode(%q)) = %q", phrase, re)
	}
	if want := refSeed(wantEntropy); seed != want {
		return fmt.Errorf("SeedFromPhrase(%q) = %x, reference %x", phrase, seed, want)
	}
	return checkKey(seed, index)
}

func checkKey(seed [32]byte, index uint64) error {
	seedCopy := seed
	k1 := wallet.KeyFromSeed(&seed, index)
	k2 := wallet.KeyFromSeed(&seed, index)
	if seed != seedCopy {
		return fmt.Errorf("KeyFromSeed modified the caller's seed")
	}
	want := refKey(seed, index)
	if !bytes.Equal(k1, want) || !bytes.Equal(k2, want) {
		return fmt.Errorf("KeyFromSeed(%x,%d) = %x / %x, reference %x", seed, index, []byte(k1), []byte(k2), []byte(want))
	}
	var pk types.PublicKey
	copy(pk[:], want.Public().(ed25519.PublicKey))
	if k1.PublicKey() != pk {
		return fmt.Errorf("public key mismatch")
	}
	if a, b := types.StandardUnlockHash(k1.PublicKey()), types.StandardUnlockHash(pk); a != b {
		return fmt.Errorf("address mismatch %v %v", a, b)
	}
	// a returned key is the caller's: wiping it (what a careful caller does
	// after signing) must not change what the same seed and index derive next
	for i := range k1 {
		k1[i] = 0
	}
	if !bytes.Equal(k2, want) {
		return fmt.Errorf("KeyFromSeed(%x,%d): wiping one returned key changed another returned key (shared memory)", seed, index)
	}
	for i := range k2 {
		k2[i] ^= 0xA5
	}
	if k3 := wallet.KeyFromSeed(&seed, index); !bytes.Equal(k3, want) {
		return fmt.Errorf("KeyFromSeed(%x,%d) after the caller wiped the keys returned earlier = %x, reference %x", seed, index, []byte(k3), []byte(want))
	}
	return nil
}

func checkEntropy(e [16]byte, index uint64) error {
	idx := refEncode(e)
	ec := e
	got := wallet.VerifEncodeBIP39Phrase(&ec)
	if ec != e {
		return fmt.Errorf("encoder modified its input")
	}
	if want := refPhrase(idx); got != want {
		return fmt.Errorf("encode(%x) = %q, reference %q", e, got, want)
	}
	if _, ok := refDecode(idx); !ok {
		return fmt.Errorf("reference self-check failed for %x", e)
	}
	return checkWords(idx, index)
}

func runC20(c C20Case, cs *kit.CaseStats) error {
	cs.NonTrivial()
	cs.Class("kind=" + c.Kind)
	switch c.Kind {
	case "entropy":
		return checkEntropy(c.entropy(), c.Index)
	case "words":
		idx := c.words()
		if _, ok := refDecode(idx); ok {
			cs.Class("words:checksum-ok")
		} else {
			cs.Class("words:checksum-bad")
		}
		return checkWords(idx, c.Index)
	case "mutword":
		idx := refEncode(c.entropy())
		orig := idx
		idx[((c.Pos%12)+12)%12] = ((c.Word % 2048) + 2048) % 2048
		if idx == orig {
			cs.Class("mutword:identity")
		} else if _, ok := refDecode(idx); ok {
			cs.Class("mutword:still-valid")
		} else {
			cs.Class("mutword:invalid")
		}
		return checkWords(idx, c.Index)
	case "ws":
		e := c.entropy()
		ws := strings.Fields(refPhrase(refEncode(e)))
		var sb strings.Builder
		for i, w := range ws {
			sep := " "
			if i < len(c.Seps) {
				sep = c.Seps[i]
			}
			if i > 0 && (sep == "" || strings.Trim(sep, " \t\n\r\v\f") != "") {
				sep = " "
			}
			sb.WriteString(sep)
			sb.WriteString(w)
		}
		if len(c.Seps) > 12 {
			sb.WriteString(c.Seps[12])
		}
		phrase := sb.String()
		if len(phrase) > 107 {
			cs.Class("ws:longer-than-any-canonical-phrase")
		}
		if strings.Join(strings.Fields(phrase), " ") != strings.Join(ws, " ") {
			// separator was not whitespace under the documented splitting rule
			return fmt.Errorf("harness: separator set broke the phrase %q", phrase)
		}
		var seed [32]byte
		if err := wallet.SeedFromPhrase(&seed, phrase); err != nil {
			return fmt.Errorf("SeedFromPhrase(%q) rejected a whitespace variant: %v", phrase, err)
		}
		if want := refSeed(e); seed != want {
			return fmt.Errorf("SeedFromPhrase(%q) = %x, reference %x", phrase, seed, want)
		}
		return checkKey(seed, c.Index)
	case "malformed":
		// the reference decides: a phrase is well formed iff it splits into
		// exactly 12 list words with a correct checksum
		ws := strings.Fields(c.Bad)
		valid := len(ws) == 12
		var idx [12]int
		if valid {
			for i, w := range ws {
				j, ok := refIndex[w]
				if !ok {
					valid = false
					break
				}
				idx[i] = j
			}
		}
		var wantE [16]byte
		if valid {
			wantE, valid = refDecode(idx)
		}
		if valid {
			cs.Class("malformed:accidentally-valid")
		}
		var seed [32]byte
		err := wallet.SeedFromPhrase(&seed, c.Bad)
		if (err == nil) != valid {
			return fmt.Errorf("SeedFromPhrase(%q): reference valid=%v, err=%v", c.Bad, valid, err)
		}
		if valid && seed != refSeed(wantE) {
			return fmt.Errorf("SeedFromPhrase(%q) wrong seed", c.Bad)
		}
		return nil
	}
	return fmt.Errorf("harness: unknown kind %q", c.Kind)
}

var c20Prop = kit.Prop[C20Case]{
	ID:   "C20",
	Rule: "cases drawn by rapid over five families: uniform 128-bit entropy (encode = big.Int reference, decode∘encode = id, seed/key derivation = blake2b/ed25519 reference); uniform 12-word sequences (decoder accepts iff reference checksum holds, then entropy and re-encoding equal the reference); one word of a valid phrase replaced by any list word; whitespace variants of a valid phrase; malformed phrases (word count, case, suffix, non-word, glued words). Every case is non-trivial; distinct = distinct (family, entropy|words, position, index) tuple by hash of the case.",
	Assumptions: []string{
		"harness BIP-39 reference: big.Int bit strings, own copy of the canonical word list (sha256 pinned), four published BIP-39 vectors (TestC20Vectors)",
		"crypto/sha256, x/crypto/blake2b and crypto/ed25519 are trusted",
		"whitespace = ASCII space, tab, newline, carriage return, vertical tab, form feed (runs, leading, trailing)",
	},
	Gen: genC20,
	Run: runC20,
}

func TestC20(t *testing.T) { c20Prop.Main(t) }

// Published BIP-39 test vectors (128-bit entries of the Trezor vector file)
// anchor the reference itself.
func TestC20Vectors(t *testing.T) {
	vectors := [][2]string{
		{"00000000000000000000000000000000", "abandon abandon abandon abandon abandon abandon abandon abandon abandon abandon abandon about"},
		{"7f7f7f7f7f7f7f7f7f7f7f7f7f7f7f7f", "legal winner thank year wave sausage worth useful legal winner thank yellow"},
		{"80808080808080808080808080808080", "letter advice cage absurd amount doctor acoustic avoid letter advice cage above"},
		{"ffffffffffffffffffffffffffffffff", "zoo zoo zoo zoo zoo zoo zoo zoo zoo zoo zoo wrong"},
	}
	for _, v := range vectors {
		var e [16]byte
		b, _ := hex.DecodeString(v[0])
		copy(e[:], b)
		if got := refPhrase(refEncode(e)); got != v[1] {
			t.Fatalf("INFRA reference encoder disagrees with BIP-39 vector %s: %q", v[0], got)
		}
	}
}

// TestC20Sweep enumerates the finite sets named by the property: all 128
// single-bit and 128 all-but-one-bit entropies, every list word at every
// position of two valid phrases, and the edge key indices.
func TestC20Sweep(t *testing.T) {
	d := kit.NewDirect(t, "C20", "exhaustive sweeps: 256 single-bit / all-but-one-bit entropies; every one of 2048 words at each of 12 positions of 2 valid phrases (accept iff reference checksum); 12 edge key indices × 8 seeds; constructed phrases of extreme length (eleven 8-letter resp. 3-letter words plus the longest resp. shortest admissible last word: phrases of 100..107 and 47..50 bytes); 200 NewSeedPhrase samples re-decoded", c20Prop.Assumptions...)
	d.St.Exhaustive = true
	defer d.Done()
	type sweepCase struct {
		Sweep   string `json:"sweep"`
		Entropy string `json:"entropy,omitempty"`
		Pos     int    `json:"pos,omitempty"`
		Word    int    `json:"word,omitempty"`
		Index   uint64 `json:"index,omitempty"`
		Phrase  string `json:"phrase,omitempty"`
	}
	nt := func(cl string) *kit.CaseStats {
		cs := &kit.CaseStats{}
		cs.NonTrivial()
		cs.Class("sweep=" + cl)
		return cs
	}
	for bit := 0; bit < 128; bit++ {
		var e [16]byte
		e[bit/8] = 1 << (7 - bit%8)
		d.Case(sweepCase{Sweep: "single-bit", Entropy: hex.EncodeToString(e[:])}, nt("single-bit"), checkEntropy(e, uint64(bit)))
		for i := range e {
			e[i] = ^e[i]
		}
		d.Case(sweepCase{Sweep: "all-but-one", Entropy: hex.EncodeToString(e[:])}, nt("all-but-one"), checkEntropy(e, uint64(bit)))
	}
	bases := [][16]byte{{}, {0x13, 0x37, 0xc0, 0xde, 0xfe, 0xed, 0xfa, 0xce, 0x01, 0x23, 0x45, 0x67, 0x89, 0xab, 0xcd, 0xef}}
	for _, base := range bases {
		orig := refEncode(base)
		for pos := 0; pos < 12; pos++ {
			for w := 0; w < 2048; w++ {
				idx := orig
				idx[pos] = w
				d.Case(sweepCase{Sweep: "word-position", Entropy: hex.EncodeToString(base[:]), Pos: pos, Word: w}, nt("word-position"), checkWords(idx, 0))
			}
		}
	}
	for s := 0; s < 8; s++ {
		seed := blake2b.Sum256([]byte{byte(s)})
		for _, ix := range edgeIndices {
			d.Case(sweepCase{Sweep: "edge-index", Entropy: hex.EncodeToString(seed[:]), Index: ix}, nt("edge-index"), checkKey(seed, ix))
		}
	}
	// phrase-length extremes: random entropies practically never yield phrases
	// near the longest (12 words of 8 letters = 107 bytes) or shortest (12
	// words of 3 letters = 47 bytes) possible, so they are constructed: eleven
	// words drawn from the longest (resp. shortest) words of the list, and of
	// the 128 possible completions (7 free bits + checksum) the one giving the
	// longest (resp. shortest) last word
	{
		var long, short []int
		for i, w := range refWords {
			if len(w) == 8 {
				long = append(long, i)
			} else if len(w) == 3 {
				short = append(short, i)
			}
		}
		pack := func(first [11]int, tail7 int) (e [16]byte) {
			n := new(big.Int)
			for _, w := range first {
				n.Lsh(n, 11)
				n.Or(n, big.NewInt(int64(w)))
			}
			n.Lsh(n, 7)
			n.Or(n, big.NewInt(int64(tail7)))
			n.FillBytes(e[:])
			return
		}
		rounds := 300
		if kit.Thorough() {
			rounds = 5000
		}
		for r := 0; r < rounds; r++ {
			for kind, pool := range [][]int{long, short} {
				h := blake2b.Sum256([]byte{byte(r), byte(r >> 8), byte(kind), 0xC2})
				var first [11]int
				for i := range first {
					first[i] = pool[(int(h[2*i])<<8|int(h[2*i+1]))%len(pool)]
				}
				if r < len(pool) {
					for i := range first {
						first[i] = pool[r] // the same word eleven times
					}
				}
				best, bestLen := 0, -1
				for tail := 0; tail < 128; tail++ {
					l := len(refWords[refEncode(pack(first, tail))[11]])
					if kind == 1 {
						l = 100 - l
					}
					if l > bestLen {
						best, bestLen = tail, l
					}
				}
				e := pack(first, best)
				n := len(refPhrase(refEncode(e)))
				cs := nt("phrase-length-extreme")
				if n >= 100 {
					cs.Class("phrase-bytes>=100")
				} else if n <= 50 {
					cs.Class("phrase-bytes<=50")
				}
				d.Case(sweepCase{Sweep: "phrase-length-extreme", Entropy: hex.EncodeToString(e[:])}, cs, checkEntropy(e, uint64(r)))
			}
		}
	}
	// NewSeedPhrase draws its own randomness; the oracle does not depend on the
	// value drawn: whatever it returns must decode and re-encode to itself.
	for i := 0; i < 200; i++ {
		p := wallet.NewSeedPhrase()
		ws := strings.Fields(p)
		var err error
		var idx [12]int
		if len(ws) != 12 {
			err = fmt.Errorf("NewSeedPhrase returned %d words", len(ws))
		} else {
			for j, w := range ws {
				k, ok := refIndex[w]
				if !ok {
					err = fmt.Errorf("NewSeedPhrase returned unknown word %q", w)
				}
				idx[j] = k
			}
			if err == nil {
				if _, ok := refDecode(idx); !ok {
					err = fmt.Errorf("NewSeedPhrase returned a phrase with a bad checksum: %q", p)
				} else {
					err = checkWords(idx, uint64(i))
				}
			}
		}
		cs := &kit.CaseStats{}
		cs.Class("sweep=new-seed-phrase")
		d.Case(sweepCase{Sweep: "new-seed-phrase", Index: uint64(i)}, cs, err)
	}
}

// FuzzC20Phrase: coverage-guided search over arbitrary phrase strings; the
// oracle is the reference decision (thorough tier only).
func FuzzC20Phrase(f *testing.F) {
	f.Add("abandon abandon abandon abandon abandon abandon abandon abandon abandon abandon abandon about")
	f.Add("zoo zoo zoo zoo zoo zoo zoo zoo zoo zoo zoo wrong")
	f.Add(" legal winner thank year wave sausage worth useful legal winner thank yellow\n")
	f.Add("")
	f.Fuzz(func(t *testing.T, s string) {
		if err := runC20(C20Case{Kind: "malformed", Bad: s}, &kit.CaseStats{}); err != nil {
			t.Fatal(err)
		}
	})
}
