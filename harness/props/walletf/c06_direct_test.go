package pwalletf

import (
	"fmt"
	"testing"

	"go.sia.tech/core/types"

	"verif/kit"
)

// ClaimCase is one cell of the siafund-claim routing matrix: who owns the
// siafunds, where the claim is paid, and whether the same v2 transaction also
// moves one of the wallet's siacoin outputs.
type ClaimCase struct {
	Owner     int  `json:"owner"`
	Claim     int  `json:"claim"`
	MovesCoin bool `json:"moves_coin"`
	Wallet    int  `json:"wallet"`
}

// runClaimCase builds genesis -> block 1 (a v2 contract is formed, so that the
// siafund pool is non-zero) -> block 2 (the hand-built transaction) -> block 3
// (empty), feeds the chain to a node, syncs a wallet and applies the C06 oracle.
// The generic intent builder of the kit never combines a siafund input with a
// siacoin movement of the same actor, so this cell of the quantifier ("siafund
// claimant incl. claim address != owner") is enumerated directly.
func runClaimCase(c ClaimCase, cs *kit.CaseStats) error {
	tc := kit.TreeCase{Net: kit.NetSpec{Maturity: 1, Allow: 1, ReqOff: 0, CutOff: 0}, Blocks: []kit.BlockSpec{{Txs: []kit.Intent{{Kind: "form", Who: 3, To: 3, V2: true}}}}}
	tr := kit.BuildTree(tc)
	b1 := tr.Nodes[0]
	if b1.Ledger == nil || len(b1.Block.V2Transactions()) == 0 {
		return fmt.Errorf("INFRA: contract formation block is invalid or empty: %v", b1.Err)
	}
	l := b1.Ledger
	owner, claim, w := kit.Actors[modInt(c.Owner, 4)], kit.Actors[modInt(c.Claim, 4)], kit.Actors[modInt(c.Wallet, 4)]
	var txn types.V2Transaction
	for _, id := range l.SortedSFIDs() {
		if e := l.SFE[id]; e.SiafundOutput.Address == owner.Addr {
			txn.SiafundInputs = append(txn.SiafundInputs, types.V2SiafundInput{Parent: e.Copy(), ClaimAddress: claim.Addr})
			txn.SiafundOutputs = append(txn.SiafundOutputs, e.SiafundOutput)
			break
		}
	}
	if len(txn.SiafundInputs) == 0 {
		return fmt.Errorf("INFRA: actor has no siafund output")
	}
	if c.MovesCoin {
		for _, id := range l.SortedSCIDs() {
			if e := l.SCE[id]; e.SiacoinOutput.Address == w.Addr && e.MaturityHeight <= l.Height()+1 {
				txn.SiacoinInputs = append(txn.SiacoinInputs, types.V2SiacoinInput{Parent: e.Copy()})
				half := e.SiacoinOutput.Value.Div64(2)
				txn.SiacoinOutputs = []types.SiacoinOutput{{Address: w.Addr, Value: half}, {Address: kit.Actors[(modInt(c.Wallet, 4)+1)%4].Addr, Value: e.SiacoinOutput.Value.Sub(half)}}
				break
			}
		}
		if len(txn.SiacoinInputs) == 0 {
			return fmt.Errorf("INFRA: wallet has no siacoin output")
		}
	}
	kit.SignV2(l.State, &txn)
	ts := b1.Block.Timestamp
	blk2, ok := kit.Normalize(kit.AssembleBlock(l.State, ts.Add(1e9), kit.Actors[0].Addr, nil, []types.V2Transaction{txn}, 0))
	if !ok {
		return fmt.Errorf("INFRA: block 2 has no stable encoding")
	}
	n2 := tr.AddDynamic(blk2)
	if n2.Ledger == nil {
		return fmt.Errorf("INFRA: hand-built block is invalid: %v", n2.Err)
	}
	blk3, _ := kit.Normalize(kit.AssembleBlock(n2.Ledger.State, ts.Add(2e9), kit.Actors[0].Addr, nil, nil, 0))
	n3 := tr.AddDynamic(blk3)
	if n3.Ledger == nil {
		return fmt.Errorf("INFRA: block 3 invalid: %v", n3.Err)
	}
	claimID := types.SiafundOutputID(txn.SiafundInputs[0].Parent.ID).V2ClaimOutputID()
	if e, ok := n3.Ledger.SCE[claimID]; !ok || e.SiacoinOutput.Value.IsZero() {
		return fmt.Errorf("INFRA: claim output missing or zero")
	}
	node, err := kit.NewNode(tr, "mem")
	if err != nil {
		return fmt.Errorf("INFRA: %v", err)
	}
	defer node.Close()
	if err := node.Submit([]types.Block{b1.Block, blk2, blk3}); err != nil {
		return fmt.Errorf("INFRA: %v", err)
	}
	cw, err := newC06Wallet("wallet on the harness store", newRecStore(), w.SK, node.CM)
	if err != nil {
		return fmt.Errorf("INFRA: %v", err)
	}
	defer cw.w.Close()
	for {
		progressed, err := cw.syncCall(node.CM, 1000, cs)
		if err != nil {
			return err
		}
		if !progressed {
			break
		}
	}
	lin, err := linearEvents(tr, n3, w.SK)
	if err != nil {
		return err
	}
	cs.Classf("owner-is-wallet=%v claim-to-wallet=%v moves-wallet-coin=%v", owner.Addr == w.Addr, claim.Addr == w.Addr, c.MovesCoin)
	cs.NonTrivial()
	return checkWallet(cw, node, n3, w.Addr, lin, cs)
}

// TestC06ClaimRouting enumerates owner x claim address x "same transaction
// moves a wallet coin" for a v2 siafund spend (all cells that involve the
// wallet).
func TestC06ClaimRouting(t *testing.T) {
	d := kit.NewDirect(t, "C06", "exhaustive matrix: siafund owner in {wallet, other} x claim address in {wallet, other} x {siafund-only transaction, transaction that also spends a wallet siacoin output}, v2 transaction built by hand on a chain with a non-zero siafund pool; full C06 oracle (outputs, proofs, events vs linear wallet, conservation)")
	defer d.Done()
	const wallet, other = 1, 2
	for _, owner := range []int{wallet, other} {
		for _, claim := range []int{wallet, other} {
			for _, moves := range []bool{false, true} {
				if owner != wallet && claim != wallet && !moves {
					continue // does not involve the wallet at all
				}
				c := ClaimCase{Owner: owner, Claim: claim, MovesCoin: moves, Wallet: wallet}
				cs := &kit.CaseStats{}
				err := func() (err error) {
					defer func() {
						if r := recover(); r != nil {
							err = fmt.Errorf("panic: %v", r)
						}
					}()
					return runClaimCase(c, cs)
				}()
				if err != nil {
					err = fmt.Errorf("claim routing %+v: %w", c, err)
				}
				d.Case(c, cs, err)
			}
		}
	}
	d.St.Exhaustive = true
}
