package pwalletf

import (
	"fmt"
	"testing"
	"time"

	"go.sia.tech/core/consensus"
	"go.sia.tech/core/types"
	"go.sia.tech/coreutils/testutil"
	"pgregory.net/rapid"

	"verif/kit"
)

// PayoutCase: one v1 file contract whose valid and missed proof output lists
// are drawn independently (different lengths, every entry's address drawn from
// {wallet, two other actors, void}), resolved by a storage proof on one branch
// and by expiry on another; the branches are submitted one after the other, so
// the wallet also sees the payout move from one list to the other in a reorg.
type PayoutCase struct {
	Maturity int   `json:"maturity"`
	Valid    []int `json:"valid"`  // address selectors, 1..3 entries
	Missed   []int `json:"missed"` // address selectors, 1..4 entries
	// ProofAt: 0 = the storage proof is mined at the window start, 1 = one later
	ProofAt int `json:"proof_at"`
	// First: 0 = the proof branch is submitted first and the (longer) expiry
	// branch reorgs it out, 1 = the other way round, 2 = only the proof branch,
	// 3 = only the expiry branch
	First int `json:"first"`
	// FormerIsWallet: the wallet pays for the contract itself
	FormerIsWallet bool `json:"former_is_wallet,omitempty"`
	Chunk1         int  `json:"chunk1"`
	Chunk2         int  `json:"chunk2"`
	MidSync        bool `json:"mid_sync"` // sync between the two submissions
}

func genPayouts(t *rapid.T) PayoutCase {
	sel := rapid.IntRange(0, 3)
	return PayoutCase{
		Maturity:       rapid.IntRange(1, 3).Draw(t, "maturity"),
		Valid:          rapid.SliceOfN(sel, 1, 3).Draw(t, "valid"),
		Missed:         rapid.SliceOfN(sel, 1, 4).Draw(t, "missed"),
		ProofAt:        rapid.IntRange(0, 1).Draw(t, "proof-at"),
		First:          kit.Uniform(t, 4, "first"),
		FormerIsWallet: kit.Chance(t, 30, "former"),
		Chunk1:         c06Chunks[kit.Uniform(t, len(c06Chunks), "chunk1")],
		Chunk2:         c06Chunks[kit.Uniform(t, len(c06Chunks), "chunk2")],
		MidSync:        kit.Chance(t, 70, "midsync"),
	}
}

const payoutWallet = 1

func payoutAddr(sel int) types.Address {
	switch modInt(sel, 4) {
	case 0:
		return kit.Actors[payoutWallet].Addr
	case 1:
		return kit.Actors[2].Addr
	case 2:
		return kit.Actors[3].Addr
	default:
		return types.VoidAddress
	}
}

// splitValues splits total into n distinct positive parts.
func splitValues(total types.Currency, n int) []types.Currency {
	unit := total.Div64(uint64(n * (n + 1))) // Σ i·unit for i=1..n is n(n+1)/2·unit ≤ total/2
	out := make([]types.Currency, n)
	var sum types.Currency
	for i := 0; i < n-1; i++ {
		out[i] = unit.Mul64(uint64(i + 1))
		sum = sum.Add(out[i])
	}
	out[n-1] = total.Sub(sum)
	return out
}

func v1SingleLeafRoot(leaf [64]byte) types.Hash256 {
	buf := make([]byte, 65)
	copy(buf[1:], leaf[:])
	return types.HashBytes(buf)
}

func signV1Whole(cs consensus.State, txn *types.Transaction, parent types.Hash256, sk types.PrivateKey) {
	sig := sk.SignHash(cs.WholeSigHash(*txn, parent, 0, 0, nil))
	txn.Signatures = append(txn.Signatures, types.TransactionSignature{ParentID: parent, CoveredFields: types.CoveredFields{WholeTransaction: true}, Signature: sig[:]})
}

func runPayouts(c PayoutCase, cs *kit.CaseStats) error {
	tr := kit.BuildTree(kit.TreeCase{Net: kit.NetSpec{Maturity: clampInt(c.Maturity, 1, 3), Allow: 500, ReqOff: 10, CutOff: 10}})
	gl := tr.Root.Ledger
	w := kit.Actors[payoutWallet]
	former := kit.Actors[0]
	if c.FormerIsWallet {
		former = w
	}
	// ---- block 1: the contract
	var in types.SiacoinElement
	for _, id := range gl.SortedSCIDs() {
		if e := gl.SCE[id]; e.SiacoinOutput.Address == former.Addr && e.SiacoinOutput.Value.Cmp(in.SiacoinOutput.Value) > 0 {
			in = e
		}
	}
	payout := types.Siacoins(2000)
	const windowStart, windowEnd = 3, 5
	fc := types.FileContract{Filesize: 64, FileMerkleRoot: v1SingleLeafRoot(kit.LeafData(3)), WindowStart: windowStart, WindowEnd: windowEnd, Payout: payout, UnlockHash: former.Addr}
	rest := payout.Sub(gl.State.FileContractTax(fc))
	nv, nm := clampInt(len(c.Valid), 1, 3), clampInt(len(c.Missed), 1, 4)
	for i, v := range splitValues(rest, nv) {
		fc.ValidProofOutputs = append(fc.ValidProofOutputs, types.SiacoinOutput{Address: payoutAddr(c.Valid[i]), Value: v})
	}
	for i, v := range splitValues(rest, nm) {
		fc.MissedProofOutputs = append(fc.MissedProofOutputs, types.SiacoinOutput{Address: payoutAddr(c.Missed[i]), Value: v})
	}
	form := types.Transaction{
		SiacoinInputs:  []types.SiacoinInput{{ParentID: in.ID, UnlockConditions: former.UC}},
		SiacoinOutputs: []types.SiacoinOutput{{Address: former.Addr, Value: in.SiacoinOutput.Value.Sub(payout)}},
		FileContracts:  []types.FileContract{fc},
	}
	signV1Whole(gl.State, &form, types.Hash256(in.ID), former.SK)
	ts := tr.Genesis.Timestamp
	add := func(parent *kit.TNode, txns []types.Transaction, salt int) (*kit.TNode, error) {
		b, ok := kit.Normalize(kit.AssembleBlock(parent.Ledger.State, ts.Add(time.Duration(int(parent.Height)+1+salt)*time.Second), kit.Actors[2+salt%2].Addr, txns, nil, 0))
		if !ok {
			return nil, fmt.Errorf("INFRA: block has no stable encoding")
		}
		n := tr.AddDynamic(b)
		if n.Ledger == nil {
			return nil, fmt.Errorf("INFRA: hand-built block at height %d is invalid: %v", parent.Height+1, n.Err)
		}
		return n, nil
	}
	b1, err := add(tr.Root, []types.Transaction{form}, 0)
	if err != nil {
		return err
	}
	b2, err := add(b1, nil, 0)
	if err != nil {
		return err
	}
	// ---- proof branch: the proof at height 3 or 4, then on to height 6
	proofBranch := []*kit.TNode{}
	cur := b2
	for h := 3; h <= 6; h++ {
		var txns []types.Transaction
		if h == windowStart+clampInt(c.ProofAt, 0, 1) {
			bb := kit.NewBlockBuilder(cur.Ledger)
			if !bb.Add(kit.Intent{Kind: "v1proof"}) {
				return fmt.Errorf("INFRA: the kit could not build the storage proof: %v", bb.Skipped)
			}
			txns = bb.Txns
		}
		if cur, err = add(cur, txns, 0); err != nil {
			return err
		}
		proofBranch = append(proofBranch, cur)
	}
	// ---- expiry branch: empty blocks from height 3 (other timestamps), longer
	expiryBranch := []*kit.TNode{}
	cur = b2
	for h := 3; h <= 8; h++ {
		if cur, err = add(cur, nil, 7); err != nil {
			return err
		}
		expiryBranch = append(expiryBranch, cur)
	}
	fcid := form.FileContractID(0)
	if _, live := proofBranch[len(proofBranch)-1].Ledger.FCE[fcid]; live {
		return fmt.Errorf("INFRA: contract still live on the proof branch")
	}
	if _, live := expiryBranch[len(expiryBranch)-1].Ledger.FCE[fcid]; live {
		return fmt.Errorf("INFRA: contract still live on the expiry branch")
	}
	// extend the proof branch when it has to win the reorg
	if modInt(c.First, 4) == 1 {
		cur = proofBranch[len(proofBranch)-1]
		for i := 0; i < 4; i++ {
			if cur, err = add(cur, nil, 0); err != nil {
				return err
			}
			proofBranch = append(proofBranch, cur)
		}
	}
	var first, second []*kit.TNode
	switch modInt(c.First, 4) {
	case 0:
		first, second = proofBranch, expiryBranch
	case 1:
		first, second = expiryBranch, proofBranch
	case 2:
		first = proofBranch
	default:
		first = expiryBranch
	}
	// ---- classes
	inValid, inMissed, sameIndex := false, false, false
	for i, o := range fc.ValidProofOutputs {
		if o.Address == w.Addr {
			inValid = true
			if i < len(fc.MissedProofOutputs) && fc.MissedProofOutputs[i].Address == w.Addr {
				sameIndex = true
			}
		}
	}
	for _, o := range fc.MissedProofOutputs {
		if o.Address == w.Addr {
			inMissed = true
		}
	}
	cs.Classf("wallet-in-valid=%v wallet-in-missed=%v", inValid, inMissed)
	if (inValid || inMissed) && !sameIndex {
		cs.Class("wallet-at-different-indices-or-in-one-list-only")
		cs.NonTrivial()
	}
	if nv != nm {
		cs.Class("lists-of-different-length")
	}
	cs.Classf("schedule=%d", modInt(c.First, 4))

	return driveBranches(tr, w, []types.Block{b1.Block, b2.Block}, first, second, c.MidSync, c.Chunk1, c.Chunk2, cs)
}

// driveBranches feeds a common prefix and a first branch to a fresh node, lets
// two wallets (harness store, reference store) sync, feeds a second, heavier
// branch and lets them sync again; the full C06 oracle runs after each sync.
func driveBranches(tr *kit.Tree, w kit.Actor, prefix []types.Block, first, second []*kit.TNode, midSync bool, chunk1, chunk2 int, cs *kit.CaseStats) error {
	blocksOf := func(ns []*kit.TNode) (out []types.Block) {
		for _, n := range ns {
			out = append(out, n.Block)
		}
		return
	}
	node, err := kit.NewNode(tr, "mem")
	if err != nil {
		return fmt.Errorf("INFRA: %v", err)
	}
	defer node.Close()
	hw, err := newC06Wallet("wallet on the harness store", newRecStore(), w.SK, node.CM)
	if err != nil {
		return fmt.Errorf("INFRA: %v", err)
	}
	defer hw.w.Close()
	rw, err := newC06Wallet("wallet on testutil.EphemeralWalletStore", testutil.NewEphemeralWalletStore(), w.SK, node.CM)
	if err != nil {
		return fmt.Errorf("INFRA: %v", err)
	}
	defer rw.w.Close()
	syncAll := func(when string, chunk int) error {
		tn := node.TipNode()
		lin, err := linearEvents(tr, tn, w.SK)
		if err != nil {
			return err
		}
		for _, cw := range []*c06Wallet{hw, rw} {
			for n := 0; ; n++ {
				progressed, err := cw.syncCall(node.CM, max(1, chunk), cs)
				if err != nil {
					return fmt.Errorf("%s: %w", when, err)
				}
				if !progressed {
					break
				}
				if n > 1000 {
					return fmt.Errorf("%s: %s does not reach the tip", when, cw.name)
				}
			}
			if err := checkWallet(cw, node, tn, w.Addr, lin, cs); err != nil {
				return fmt.Errorf("%s: %w", when, err)
			}
		}
		return nil
	}
	if err := node.Submit(append(append([]types.Block(nil), prefix...), blocksOf(first)...)); err != nil {
		return fmt.Errorf("INFRA: %v", err)
	}
	if node.CM.Tip() != first[len(first)-1].Index() {
		return fmt.Errorf("INFRA: first branch is not the best chain")
	}
	if midSync || len(second) == 0 {
		if err := syncAll("after the first branch", chunk1); err != nil {
			return err
		}
	}
	if len(second) > 0 {
		if err := node.Submit(blocksOf(second)); err != nil {
			return fmt.Errorf("INFRA: %v", err)
		}
		if node.CM.Tip() != second[len(second)-1].Index() {
			return fmt.Errorf("INFRA: second branch did not become the best chain")
		}
		cs.Class("second-branch-reorgs-the-first")
		if err := syncAll("after the reorg to the second branch", chunk2); err != nil {
			return err
		}
	}
	return nil
}

var c06PayoutsProp = kit.Prop[PayoutCase]{
	ID:   "C06",
	Rule: "one hand-built v1 file contract with independently drawn payout lists (1..3 valid and 1..4 missed proof outputs, each address drawn from {wallet, two other actors, void}, distinct values), formed by another actor or by the wallet, resolved by a storage proof on one branch and by expiry on a longer sibling branch; the branches are submitted in either order (or only one), the wallets sync with drawn chunk sizes in between; full C06 oracle after each sync. Non-trivial = the wallet appears in only one of the lists or at different indices.",
	Gen:  genPayouts,
	Run:  runPayouts,
}

func TestC06Payouts(t *testing.T) { c06PayoutsProp.Main(t) }

// V2PayoutCase: one v2 contract whose renter/host output addresses are drawn
// independently of the parties' keys, resolved differently on two sibling
// branches (storage proof, renewal with independently drawn final output
// addresses, expiration).
type V2PayoutCase struct {
	Maturity   int  `json:"maturity"`
	RenterAddr int  `json:"renter_addr"`
	HostAddr   int  `json:"host_addr"`
	FinalR     int  `json:"final_renter_addr"` // renewal: address of the final renter output
	FinalH     int  `json:"final_host_addr"`
	NewR       int  `json:"new_renter_addr"` // renewal: output addresses of the new contract
	NewH       int  `json:"new_host_addr"`
	KindA      int  `json:"kind_a"` // 0 proof, 1 renew, 2 expire
	KindB      int  `json:"kind_b"`
	Only       bool `json:"only"` // only branch A
	Chunk1     int  `json:"chunk1"`
	Chunk2     int  `json:"chunk2"`
	MidSync    bool `json:"mid_sync"`
}

func genV2Payouts(t *rapid.T) V2PayoutCase {
	sel := rapid.IntRange(0, 3)
	return V2PayoutCase{
		Maturity:   rapid.IntRange(1, 3).Draw(t, "maturity"),
		RenterAddr: sel.Draw(t, "renter-addr"), HostAddr: sel.Draw(t, "host-addr"),
		FinalR: sel.Draw(t, "final-renter"), FinalH: sel.Draw(t, "final-host"),
		NewR: sel.Draw(t, "new-renter"), NewH: sel.Draw(t, "new-host"),
		KindA: kit.Uniform(t, 3, "kind-a"), KindB: kit.Uniform(t, 3, "kind-b"),
		Only:    kit.Chance(t, 25, "only"),
		Chunk1:  c06Chunks[kit.Uniform(t, len(c06Chunks), "chunk1")],
		Chunk2:  c06Chunks[kit.Uniform(t, len(c06Chunks), "chunk2")],
		MidSync: kit.Chance(t, 70, "midsync"),
	}
}

var v2ResolutionKinds = []string{"v2proof", "v2renew", "v2expire"}

func runV2Payouts(c V2PayoutCase, cs *kit.CaseStats) error {
	tr := kit.BuildTree(kit.TreeCase{Net: kit.NetSpec{Maturity: clampInt(c.Maturity, 1, 3), Allow: 1, ReqOff: 0, CutOff: 0}})
	gl := tr.Root.Ledger
	w := kit.Actors[payoutWallet]
	const renter, host = 0, 2
	ts := tr.Genesis.Timestamp
	add := func(parent *kit.TNode, txns []types.V2Transaction, salt int) (*kit.TNode, error) {
		b, ok := kit.Normalize(kit.AssembleBlock(parent.Ledger.State, ts.Add(time.Duration(int(parent.Height)+1+salt)*time.Second), kit.Actors[3].Addr, nil, txns, 0))
		if !ok {
			return nil, fmt.Errorf("INFRA: block has no stable encoding")
		}
		n := tr.AddDynamic(b)
		if n.Ledger == nil {
			return nil, fmt.Errorf("INFRA: hand-built block at height %d is invalid: %v", parent.Height+1, n.Err)
		}
		return n, nil
	}
	sign := func(cs consensus.State, fc *types.V2FileContract) {
		fc.RenterSignature, fc.HostSignature = types.Signature{}, types.Signature{}
		h := cs.ContractSigHash(*fc)
		fc.RenterSignature = kit.Actors[renter].SK.SignHash(h)
		fc.HostSignature = kit.Actors[host].SK.SignHash(h)
	}
	// ---- block 1: formation, paid by the renter key's largest genesis output
	var in types.SiacoinElement
	for _, id := range gl.SortedSCIDs() {
		if e := gl.SCE[id]; e.SiacoinOutput.Address == kit.Actors[renter].Addr && e.SiacoinOutput.Value.Cmp(in.SiacoinOutput.Value) > 0 {
			in = e
		}
	}
	leaf := kit.LeafData(5)
	fc := types.V2FileContract{
		Capacity: 64, Filesize: 64, FileMerkleRoot: gl.State.StorageProofLeafHash(leaf[:]),
		ProofHeight: 3, ExpirationHeight: 5,
		RenterOutput:    types.SiacoinOutput{Address: payoutAddr(c.RenterAddr), Value: types.Siacoins(20)},
		HostOutput:      types.SiacoinOutput{Address: payoutAddr(c.HostAddr), Value: types.Siacoins(10)},
		MissedHostValue: types.Siacoins(4), TotalCollateral: types.Siacoins(5),
		RenterPublicKey: kit.Actors[renter].PK, HostPublicKey: kit.Actors[host].PK,
	}
	sign(gl.State, &fc)
	cost := fc.RenterOutput.Value.Add(fc.HostOutput.Value).Add(gl.State.V2FileContractTax(fc))
	form := types.V2Transaction{SiacoinInputs: []types.V2SiacoinInput{{Parent: in.Copy()}}, FileContracts: []types.V2FileContract{fc},
		SiacoinOutputs: []types.SiacoinOutput{{Address: kit.Actors[renter].Addr, Value: in.SiacoinOutput.Value.Sub(cost)}}}
	kit.SignV2(gl.State, &form)
	b1, err := add(tr.Root, []types.V2Transaction{form}, 0)
	if err != nil {
		return err
	}
	b2, err := add(b1, nil, 0)
	if err != nil {
		return err
	}
	// ---- a branch that resolves the contract in the given way
	branch := func(kind string, upTo int, salt int) ([]*kit.TNode, error) {
		var out []*kit.TNode
		cur, done := b2, false
		for h := 3; h <= upTo; h++ {
			var txns []types.V2Transaction
			if !done {
				bb := kit.NewBlockBuilder(cur.Ledger)
				if bb.Add(kit.Intent{Kind: kind, Who: renter}) {
					txn := bb.V2Txns[0]
					if ren, ok := txn.FileContractResolutions[0].Resolution.(*types.V2FileContractRenewal); ok {
						// the parties direct the final payouts and the new
						// contract's outputs wherever they like
						ren.FinalRenterOutput.Address = payoutAddr(c.FinalR)
						ren.FinalHostOutput.Address = payoutAddr(c.FinalH)
						ren.NewContract.RenterOutput.Address = payoutAddr(c.NewR)
						ren.NewContract.HostOutput.Address = payoutAddr(c.NewH)
						sign(cur.Ledger.State, &ren.NewContract)
						ren.RenterSignature, ren.HostSignature = types.Signature{}, types.Signature{}
						hsh := cur.Ledger.State.RenewalSigHash(*ren)
						ren.RenterSignature = kit.Actors[renter].SK.SignHash(hsh)
						ren.HostSignature = kit.Actors[host].SK.SignHash(hsh)
						kit.SignV2(cur.Ledger.State, &txn)
					}
					txns, done = []types.V2Transaction{txn}, true
				}
			}
			n, err := add(cur, txns, salt)
			if err != nil {
				return nil, err
			}
			cur = n
			out = append(out, n)
		}
		if !done {
			return nil, fmt.Errorf("INFRA: the kit could not build %s up to height %d", kind, upTo)
		}
		return out, nil
	}
	kindA, kindB := v2ResolutionKinds[modInt(c.KindA, 3)], v2ResolutionKinds[modInt(c.KindB, 3)]
	first, err := branch(kindA, 7, 0)
	if err != nil {
		return err
	}
	var second []*kit.TNode
	if !c.Only {
		if second, err = branch(kindB, 10, 7); err != nil {
			return err
		}
		cs.Classf("reorg=%s->%s", kindA, kindB)
	} else {
		cs.Classf("only=%s", kindA)
	}
	wa := w.Addr
	involved := fc.RenterOutput.Address == wa || fc.HostOutput.Address == wa
	if kindA == "v2renew" || (!c.Only && kindB == "v2renew") {
		cs.Class("renewal")
		fr, fh := payoutAddr(c.FinalR) == wa, payoutAddr(c.FinalH) == wa
		if fr != (fc.RenterOutput.Address == wa) || fh != (fc.HostOutput.Address == wa) {
			cs.Class("renewal-final-output-address-differs-from-the-contract's-for-the-wallet")
			cs.NonTrivial()
		}
		involved = involved || fr || fh
	}
	if involved {
		cs.Class("wallet-receives-a-v2-payout")
		cs.NonTrivial()
	}
	return driveBranches(tr, w, []types.Block{b1.Block, b2.Block}, first, second, c.MidSync, c.Chunk1, c.Chunk2, cs)
}

var c06V2PayoutsProp = kit.Prop[V2PayoutCase]{
	ID:   "C06",
	Rule: "one hand-built v2 contract whose renter and host output addresses are drawn from {wallet, two other actors, void} independently of the parties' keys, resolved by storage proof, renewal (final output addresses and the new contract's output addresses drawn independently as well) or expiration on one branch and, after a reorg to a longer sibling branch, in a second drawn way; full C06 oracle after each sync. Non-trivial = the wallet receives a payout, or a renewal pays the wallet although the contract's output does not (or vice versa).",
	Gen:  genV2Payouts,
	Run:  runV2Payouts,
}

func TestC06V2Payouts(t *testing.T) { c06V2PayoutsProp.Main(t) }

// MinerBlock is one hand-built block of a MinerPayoutCase.
type MinerBlock struct {
	Payouts []int `json:"payouts"`         // address selectors of the miner payouts (1..4, duplicates allowed)
	Spend   bool  `json:"spend,omitempty"` // the wallet spends one of its outputs in the block (with a fee)
}

// MinerPayoutCase: v1-format blocks (below the v2 allow height) whose reward +
// fees is split into several miner payouts, any number of them to the wallet's
// address; a main branch and a heavier fork.
type MinerPayoutCase struct {
	Maturity int          `json:"maturity"`
	Overlap  bool         `json:"overlap"` // v2 is allowed from height 6 (blocks from there carry exactly one payout)
	Main     []MinerBlock `json:"main"`
	ForkAt   int          `json:"fork_at"`
	Fork     []MinerBlock `json:"fork"`
	Chunk1   int          `json:"chunk1"`
	Chunk2   int          `json:"chunk2"`
	MidSync  bool         `json:"mid_sync"`
}

func genMinerPayouts(t *rapid.T) MinerPayoutCase {
	blk := rapid.Custom(func(t *rapid.T) MinerBlock {
		// selector 0 is the wallet; make it frequent so that two or more payouts of
		// one block go to the wallet often
		return MinerBlock{Payouts: rapid.SliceOfN(rapid.SampledFrom([]int{0, 0, 0, 1, 2}), 1, 4).Draw(t, "payouts"), Spend: kit.Chance(t, 25, "spend")}
	})
	return MinerPayoutCase{
		Maturity: rapid.IntRange(1, 3).Draw(t, "maturity"),
		Overlap:  kit.Chance(t, 40, "overlap"),
		Main:     rapid.SliceOfN(blk, 2, 8).Draw(t, "main"),
		ForkAt:   rapid.IntRange(0, 6).Draw(t, "fork-at"),
		Fork:     rapid.SliceOfN(blk, 0, 6).Draw(t, "fork"),
		Chunk1:   c06Chunks[kit.Uniform(t, len(c06Chunks), "chunk1")],
		Chunk2:   c06Chunks[kit.Uniform(t, len(c06Chunks), "chunk2")],
		MidSync:  kit.Chance(t, 70, "midsync"),
	}
}

func runMinerPayouts(c MinerPayoutCase, cs *kit.CaseStats) error {
	ns := kit.NetSpec{Maturity: clampInt(c.Maturity, 1, 3), Allow: 500, ReqOff: 10, CutOff: 10}
	if c.Overlap {
		ns.Allow, ns.ReqOff = 6, 500
	}
	tr := kit.BuildTree(kit.TreeCase{Net: ns})
	w := kit.Actors[payoutWallet]
	ts := tr.Genesis.Timestamp
	build := func(parent *kit.TNode, mb MinerBlock, salt int) (*kit.TNode, error) {
		var txns []types.Transaction
		var v2txns []types.V2Transaction
		if mb.Spend {
			bb := kit.NewBlockBuilder(parent.Ledger)
			if bb.Add(kit.Intent{Kind: "pay", Who: payoutWallet, To: 2, Pick: salt, Amt: 3, Fee: true}) {
				txns, v2txns = bb.Txns, bb.V2Txns
				cs.Class("block-with-wallet-spend")
			}
		}
		pay := mb.Payouts
		if len(pay) == 0 {
			pay = []int{1}
		}
		b := kit.AssembleBlock(parent.Ledger.State, ts.Add(time.Duration(int(parent.Height)+1+salt)*time.Second), payoutAddr(pay[0]), txns, v2txns, 0)
		if b.V2 == nil && len(pay) > 1 {
			// a v1-format block may split reward + fees over any number of payouts
			total := b.MinerPayouts[0].Value
			b.MinerPayouts = nil
			n := clampInt(len(pay), 1, 4)
			toWallet := 0
			for i, v := range splitValues(total, n) {
				b.MinerPayouts = append(b.MinerPayouts, types.SiacoinOutput{Address: payoutAddr(pay[i]), Value: v})
				if payoutAddr(pay[i]) == w.Addr {
					toWallet++
				}
			}
			kit.Grind(parent.Ledger.State, &b, true)
			cs.Class("block-with-split-miner-payout")
			if toWallet >= 2 {
				cs.Class("two-or-more-miner-payouts-of-one-block-to-the-wallet")
				cs.NonTrivial()
			}
		} else if b.V2 != nil {
			cs.Class("v2-format-block (single payout)")
		}
		nb, ok := kit.Normalize(b)
		if !ok {
			return nil, fmt.Errorf("INFRA: block has no stable encoding")
		}
		n := tr.AddDynamic(nb)
		if n.Ledger == nil {
			return nil, fmt.Errorf("INFRA: hand-built block at height %d is invalid: %v", parent.Height+1, n.Err)
		}
		return n, nil
	}
	var main []*kit.TNode
	cur := tr.Root
	for _, mb := range c.Main {
		n, err := build(cur, mb, 0)
		if err != nil {
			return err
		}
		main = append(main, n)
		cur = n
	}
	forkAt := clampInt(c.ForkAt, 0, len(main)-1)
	var second []*kit.TNode
	if len(c.Fork) > 0 {
		cur = tr.Root
		if forkAt > 0 {
			cur = main[forkAt-1]
		}
		// the fork has to be heavier: at least two blocks longer than what it replaces
		need := len(main) - forkAt + 2
		for i := 0; i < need; i++ {
			n, err := build(cur, c.Fork[i%len(c.Fork)], 9)
			if err != nil {
				return err
			}
			second = append(second, n)
			cur = n
		}
		cs.Classf("reorg-depth=%d", min(len(main)-forkAt, 6))
	}
	var prefix []types.Block
	for _, n := range main[:forkAt] {
		prefix = append(prefix, n.Block)
	}
	return driveBranches(tr, w, prefix, main[forkAt:], second, c.MidSync, c.Chunk1, c.Chunk2, cs)
}

var c06MinerPayoutsProp = kit.Prop[MinerPayoutCase]{
	ID:   "C06",
	Rule: "hand-built v1-format blocks (v1-only network, or below the allow height 6 of an overlap network) whose reward + fees is split into 1..4 miner payouts with addresses drawn from {wallet ×3, two other actors} (duplicates allowed, distinct values), a quarter of the blocks also carrying a fee-paying spend of the wallet; a main branch of 2..8 blocks and a heavier fork from a drawn height; full C06 oracle after each sync. Non-trivial = some block pays two or more of its miner payouts to the wallet.",
	Gen:  genMinerPayouts,
	Run:  runMinerPayouts,
}

func TestC06MinerPayouts(t *testing.T) { c06MinerPayoutsProp.Main(t) }

// NoOutputCase: the wallet pays for a confirmed transaction that has no
// siacoin output at all - a whole output burnt as miner fee, or an exactly
// funded contract formation / renewal without change - in the v1 and the v2
// form; optionally a heavier fork without it reverts it again.
type NoOutputCase struct {
	Maturity int  `json:"maturity"`
	V2       bool `json:"v2"`
	Kind     int  `json:"kind"` // 0 burn, 1 exactly funded formation, 2 exactly funded renewal (v2 only; v1: formation)
	Pick     int  `json:"pick"` // which genesis output of the wallet
	Fork     bool `json:"fork"`
	Chunk1   int  `json:"chunk1"`
	Chunk2   int  `json:"chunk2"`
	MidSync  bool `json:"mid_sync"`
}

func genNoOutput(t *rapid.T) NoOutputCase {
	return NoOutputCase{
		Maturity: rapid.IntRange(1, 3).Draw(t, "maturity"),
		V2:       rapid.Bool().Draw(t, "v2"),
		Kind:     kit.Uniform(t, 3, "kind"),
		Pick:     rapid.IntRange(0, 5).Draw(t, "pick"),
		Fork:     kit.Chance(t, 50, "fork"),
		Chunk1:   c06Chunks[kit.Uniform(t, len(c06Chunks), "chunk1")],
		Chunk2:   c06Chunks[kit.Uniform(t, len(c06Chunks), "chunk2")],
		MidSync:  kit.Chance(t, 70, "midsync"),
	}
}

func runNoOutput(c NoOutputCase, cs *kit.CaseStats) error {
	ns := kit.NetSpec{Maturity: clampInt(c.Maturity, 1, 3), Allow: 500, ReqOff: 10, CutOff: 10}
	if c.V2 {
		ns.Allow, ns.ReqOff, ns.CutOff = 1, 0, 0
	}
	tr := kit.BuildTree(kit.TreeCase{Net: ns})
	w := kit.Actors[payoutWallet]
	ts := tr.Genesis.Timestamp
	add := func(parent *kit.TNode, v1 []types.Transaction, v2 []types.V2Transaction, salt int) (*kit.TNode, error) {
		b, ok := kit.Normalize(kit.AssembleBlock(parent.Ledger.State, ts.Add(time.Duration(int(parent.Height)+1+salt)*time.Second), kit.Actors[3].Addr, v1, v2, 0))
		if !ok {
			return nil, fmt.Errorf("INFRA: block has no stable encoding")
		}
		n := tr.AddDynamic(b)
		if n.Ledger == nil {
			return nil, fmt.Errorf("INFRA: hand-built block at height %d is invalid: %v", parent.Height+1, n.Err)
		}
		return n, nil
	}
	walletOutputs := func(n *kit.TNode) (out []types.SiacoinElement) {
		for _, id := range n.Ledger.SortedSCIDs() {
			if e := n.Ledger.SCE[id]; e.SiacoinOutput.Address == w.Addr && e.MaturityHeight <= n.Height+1 {
				out = append(out, e)
			}
		}
		return
	}
	kind := modInt(c.Kind, 3)
	var main []*kit.TNode
	cur := tr.Root
	step := func(v1 []types.Transaction, v2 []types.V2Transaction) error {
		n, err := add(cur, v1, v2, 0)
		if err != nil {
			return err
		}
		main = append(main, n)
		cur = n
		return nil
	}
	forkFrom := tr.Root // the fork leaves out everything from here on
	if !c.V2 {
		outs := walletOutputs(cur)
		in := outs[modInt(c.Pick, len(outs))]
		txn := types.Transaction{SiacoinInputs: []types.SiacoinInput{{ParentID: in.ID, UnlockConditions: w.UC}}}
		if kind == 0 {
			txn.MinerFees = []types.Currency{in.SiacoinOutput.Value}
			cs.Class("v1: whole output burnt as miner fee")
		} else {
			fc := types.FileContract{Filesize: 64, FileMerkleRoot: v1SingleLeafRoot(kit.LeafData(2)), WindowStart: 4, WindowEnd: 6, Payout: in.SiacoinOutput.Value, UnlockHash: w.Addr}
			rest := fc.Payout.Sub(cur.Ledger.State.FileContractTax(fc))
			fc.ValidProofOutputs = []types.SiacoinOutput{{Address: kit.Actors[2].Addr, Value: rest}}
			fc.MissedProofOutputs = []types.SiacoinOutput{{Address: kit.Actors[3].Addr, Value: rest}}
			txn.FileContracts = []types.FileContract{fc}
			cs.Class("v1: exactly funded contract formation without change")
		}
		signV1Whole(cur.Ledger.State, &txn, types.Hash256(in.ID), w.SK)
		if err := step([]types.Transaction{txn}, nil); err != nil {
			return err
		}
	} else {
		const renter, host = 0, 2
		spendExact := func(build func(l *kit.TNode, in types.SiacoinElement) (types.V2Transaction, error), want types.Currency) error {
			// a transaction of the wallet first makes an output of exactly the wanted value
			outs := walletOutputs(cur)
			g := outs[modInt(c.Pick, len(outs))]
			if g.SiacoinOutput.Value.Cmp(want) <= 0 {
				g = outs[len(outs)-1]
				for _, o := range outs {
					if o.SiacoinOutput.Value.Cmp(g.SiacoinOutput.Value) > 0 {
						g = o
					}
				}
			}
			prep := types.V2Transaction{SiacoinInputs: []types.V2SiacoinInput{{Parent: g.Copy()}},
				SiacoinOutputs: []types.SiacoinOutput{{Address: w.Addr, Value: want}, {Address: w.Addr, Value: g.SiacoinOutput.Value.Sub(want)}}}
			kit.SignV2(cur.Ledger.State, &prep)
			if err := step(nil, []types.V2Transaction{prep}); err != nil {
				return err
			}
			forkFrom = cur
			x, ok := cur.Ledger.SCE[prep.SiacoinOutputID(prep.ID(), 0)]
			if !ok {
				return fmt.Errorf("INFRA: prepared output missing")
			}
			txn, err := build(cur, x)
			if err != nil {
				return err
			}
			if len(txn.SiacoinOutputs) != 0 {
				return fmt.Errorf("INFRA: transaction has siacoin outputs")
			}
			return step(nil, []types.V2Transaction{txn})
		}
		switch kind {
		case 0:
			outs := walletOutputs(cur)
			in := outs[modInt(c.Pick, len(outs))]
			txn := types.V2Transaction{SiacoinInputs: []types.V2SiacoinInput{{Parent: in.Copy()}}, MinerFee: in.SiacoinOutput.Value}
			kit.SignV2(cur.Ledger.State, &txn)
			cs.Class("v2: whole output burnt as miner fee")
			if err := step(nil, []types.V2Transaction{txn}); err != nil {
				return err
			}
		case 1:
			leaf := kit.LeafData(6)
			fc := types.V2FileContract{Capacity: 64, Filesize: 64, FileMerkleRoot: cur.Ledger.State.StorageProofLeafHash(leaf[:]), ProofHeight: 6, ExpirationHeight: 8,
				RenterOutput: types.SiacoinOutput{Address: kit.Actors[renter].Addr, Value: types.Siacoins(20)}, HostOutput: types.SiacoinOutput{Address: kit.Actors[host].Addr, Value: types.Siacoins(10)},
				MissedHostValue: types.Siacoins(4), TotalCollateral: types.Siacoins(5), RenterPublicKey: kit.Actors[renter].PK, HostPublicKey: kit.Actors[host].PK}
			h := cur.Ledger.State.ContractSigHash(fc)
			fc.RenterSignature, fc.HostSignature = kit.Actors[renter].SK.SignHash(h), kit.Actors[host].SK.SignHash(h)
			cost := fc.RenterOutput.Value.Add(fc.HostOutput.Value).Add(cur.Ledger.State.V2FileContractTax(fc))
			cs.Class("v2: exactly funded contract formation without change")
			if err := spendExact(func(l *kit.TNode, in types.SiacoinElement) (types.V2Transaction, error) {
				txn := types.V2Transaction{SiacoinInputs: []types.V2SiacoinInput{{Parent: in.Copy()}}, FileContracts: []types.V2FileContract{fc}}
				kit.SignV2(l.Ledger.State, &txn)
				return txn, nil
			}, cost); err != nil {
				return err
			}
		default:
			// a contract of actors 0 and 2 exists; the wallet pays for its renewal
			bb := kit.NewBlockBuilder(cur.Ledger)
			if !bb.Add(kit.Intent{Kind: "v2form", Who: renter, To: host, Amt: 2, A: 3, B: 2}) {
				return fmt.Errorf("INFRA: the kit could not form a contract: %v", bb.Skipped)
			}
			if err := step(nil, bb.V2Txns); err != nil {
				return err
			}
			renew := func(l *kit.TNode) (types.V2Transaction, types.Currency, error) {
				rb := kit.NewBlockBuilder(l.Ledger)
				if !rb.Add(kit.Intent{Kind: "v2renew", Who: renter, Amt: 1, A: 1, B: 1}) {
					return types.V2Transaction{}, types.ZeroCurrency, fmt.Errorf("INFRA: the kit could not renew: %v", rb.Skipped)
				}
				txn := rb.V2Txns[0]
				need := txn.SiacoinInputs[0].Parent.SiacoinOutput.Value
				for _, o := range txn.SiacoinOutputs {
					need = need.Sub(o.Value)
				}
				return txn, need, nil
			}
			_, need, err := renew(cur)
			if err != nil {
				return err
			}
			cs.Class("v2: exactly funded contract renewal without change")
			if err := spendExact(func(l *kit.TNode, in types.SiacoinElement) (types.V2Transaction, error) {
				txn, need2, err := renew(l)
				if err != nil {
					return txn, err
				}
				if !need2.Equals(need) || !need.Equals(in.SiacoinOutput.Value) {
					return txn, fmt.Errorf("INFRA: renewal cost changed (%v, %v, %v)", need, need2, in.SiacoinOutput.Value)
				}
				txn.SiacoinInputs = []types.V2SiacoinInput{{Parent: in.Copy()}}
				txn.SiacoinOutputs = nil
				kit.SignV2(l.Ledger.State, &txn)
				return txn, nil
			}, need); err != nil {
				return err
			}
		}
	}
	for i := 0; i < 2; i++ {
		if err := step(nil, nil); err != nil {
			return err
		}
	}
	cs.NonTrivial()
	var second []*kit.TNode
	if c.Fork {
		cur = forkFrom
		for int(cur.Height) < int(main[len(main)-1].Height)+2 {
			n, err := add(cur, nil, nil, 7)
			if err != nil {
				return err
			}
			second = append(second, n)
			cur = n
		}
		cs.Class("fork-reverts-the-transaction")
	}
	// everything up to (and including) forkFrom is the common prefix
	var prefix []types.Block
	var first []*kit.TNode
	for _, n := range main {
		if n.Height <= forkFrom.Height {
			prefix = append(prefix, n.Block)
		} else {
			first = append(first, n)
		}
	}
	return driveBranches(tr, w, prefix, first, second, c.MidSync, c.Chunk1, c.Chunk2, cs)
}

var c06NoOutputProp = kit.Prop[NoOutputCase]{
	ID:   "C06",
	Rule: "the wallet pays for a confirmed transaction without any siacoin output: a whole output burnt as miner fee (v1, v2), an exactly funded contract formation without change (v1: payout = the input's value; v2: an output of exactly renter + host output + tax is made first) and an exactly funded v2 renewal of somebody else's contract; two more blocks, optionally a heavier fork that leaves the transaction out; full C06 oracle after each sync (the transaction event must exist with outflow = the spent value and inflow 0).",
	Gen:  genNoOutput,
	Run:  runNoOutput,
}

func TestC06NoOutputs(t *testing.T) { c06NoOutputProp.Main(t) }
