package pwalletf

import (
	"bytes"
	"errors"
	"fmt"
	"sort"
	"sync"
	"testing"
	"time"

	"go.sia.tech/core/types"
	"go.sia.tech/coreutils/chain"
	"go.sia.tech/coreutils/testutil"
	"go.sia.tech/coreutils/wallet"
	"pgregory.net/rapid"

	"verif/kit"
	"verif/refl"
)

// ---------------------------------------------------------------- case

// SyncStep lets the wallets ask the manager for updates: up to Calls calls of
// UpdatesSince(storeTip, Max), each handed to UpdateChainState.
type SyncStep struct {
	Max   int `json:"max"`
	Calls int `json:"calls"`
}

// C06Step is a block submission or a wallet sync step.
type C06Step struct {
	Submit *kit.SubmitStep `json:"submit,omitempty"`
	Sync   *SyncStep       `json:"sync,omitempty"`
}

// C06Case: a fork tree, the actor that is the wallet, and a submission
// schedule interleaved with sync steps (the chunking plan).
type C06Case struct {
	Tree       kit.TreeCase `json:"tree"`
	Wallet     int          `json:"wallet"`
	Steps      []C06Step    `json:"steps"`
	FinalChunk int          `json:"final_chunk"`
}

var c06Chunks = []int{1, 1, 2, 3, 7, 1000}

func genC06(t *rapid.T) C06Case {
	cfg := kit.DefaultTreeGen()
	cfg.CorruptPct = 2
	cfg.BadIntentPct = 1
	cfg.ForkPct = 28
	cfg.SharedPct = 0 // unique v1 windows: the expiring-order finding of C02 is not this property's subject
	cfg.Kinds = []string{"pay", "pay", "sf", "sf", "form", "form", "fcop", "fcop", "fcop", "fcop", "foundation", "arb"}
	tc := kit.GenTree(t, cfg)
	c := C06Case{Tree: tc, Wallet: kit.Uniform(t, kit.NumActors, "wallet"), FinalChunk: c06Chunks[kit.Uniform(t, len(c06Chunks), "finalchunk")]}
	// make the wallet's address take several roles in one block more often than
	// independent draws do: it mines the block, spends in it, and is paid by a
	// siafund claim / a contract of somebody else in it
	for i := range tc.Blocks {
		if !kit.Chance(t, 12, "busyblock") {
			continue
		}
		bs := &tc.Blocks[i]
		bs.Miner = c.Wallet
		other := (c.Wallet + 1 + kit.Uniform(t, kit.NumActors-1, "other")) % kit.NumActors
		extra := []kit.Intent{
			{Kind: "pay", Who: c.Wallet, To: other, Pick: kit.Uniform(t, 6, "pick"), Amt: kit.Uniform(t, 10, "amt"), V2: kit.Chance(t, 50, "v2"), Fee: kit.Chance(t, 50, "fee")},
			{Kind: "sf", Who: other, To: other, A: c.Wallet, Amt: kit.Uniform(t, 10, "amt2"), V2: kit.Chance(t, 50, "v2b")},
		}
		if kit.Chance(t, 60, "busyform") {
			extra = append(extra, kit.Intent{Kind: "form", Who: other, To: c.Wallet, Amt: kit.Uniform(t, 5, "amt3"), A: kit.Uniform(t, 12, "a3"), B: kit.Uniform(t, 6, "b3"), V2: kit.Chance(t, 50, "v2c")})
		}
		if kit.Chance(t, 60, "busyfcop") {
			extra = append(extra, kit.Intent{Kind: "fcop", Who: other, Pick: kit.Uniform(t, 8, "pick4"), Amt: kit.Uniform(t, 10, "amt4"), A: kit.Uniform(t, 12, "a4"), B: kit.Uniform(t, 6, "b4")})
		}
		bs.Txs = append(bs.Txs, extra...)
	}
	c.Tree = tc
	for _, st := range kit.GenSchedule(t, len(tc.Blocks), 24) {
		st := st
		c.Steps = append(c.Steps, C06Step{Submit: &st})
		if kit.Chance(t, 55, "syncroll") {
			c.Steps = append(c.Steps, C06Step{Sync: &SyncStep{
				Max:   c06Chunks[kit.Uniform(t, len(c06Chunks), "chunk")],
				Calls: []int{1, 1, 2, 3, 50}[kit.Uniform(t, 5, "calls")],
			}})
		}
	}
	return c
}

// ---------------------------------------------------------------- harness store

// recStore is a SingleAddressStore + UpdateTx that records as its tip the index
// the update stream left it at: the last applied index, or after a revert the
// index that was applied before the reverted one. It is strict: a diff that
// does not fit what it holds is an error, not a silent overwrite.
type recStore struct {
	mu     sync.Mutex
	tips   []types.ChainIndex // applied indices, oldest first
	utxos  map[types.SiacoinOutputID]types.SiacoinElement
	events []wallet.Event
	fault  error
	// statistics for classification
	revertedTypes map[string]int
	reverts       int
}

func newRecStore() *recStore {
	return &recStore{utxos: map[types.SiacoinOutputID]types.SiacoinElement{}, revertedTypes: map[string]int{}}
}

func (s *recStore) tipLocked() types.ChainIndex {
	if len(s.tips) == 0 {
		return types.ChainIndex{}
	}
	return s.tips[len(s.tips)-1]
}

func (s *recStore) Tip() (types.ChainIndex, error) {
	s.mu.Lock()
	defer s.mu.Unlock()
	return s.tipLocked(), nil
}

func (s *recStore) UnspentSiacoinElements() (types.ChainIndex, []types.SiacoinElement, error) {
	s.mu.Lock()
	defer s.mu.Unlock()
	out := make([]types.SiacoinElement, 0, len(s.utxos))
	for _, e := range s.utxos {
		out = append(out, e.Copy())
	}
	sort.Slice(out, func(i, j int) bool { return bytes.Compare(out[i].ID[:], out[j].ID[:]) < 0 })
	return s.tipLocked(), out, nil
}

func (s *recStore) WalletEvent(id types.Hash256) (wallet.Event, error) {
	s.mu.Lock()
	defer s.mu.Unlock()
	for _, ev := range s.events {
		if ev.ID == id {
			return ev, nil
		}
	}
	return wallet.Event{}, wallet.ErrEventNotFound
}

func (s *recStore) WalletEvents(offset, limit int) ([]wallet.Event, error) {
	s.mu.Lock()
	defer s.mu.Unlock()
	if offset >= len(s.events) {
		return nil, nil
	}
	end := min(offset+limit, len(s.events))
	return append([]wallet.Event(nil), s.events[offset:end]...), nil
}

func (s *recStore) WalletEventCount() (uint64, error) {
	s.mu.Lock()
	defer s.mu.Unlock()
	return uint64(len(s.events)), nil
}

func (s *recStore) AddBroadcastedSet(wallet.BroadcastedSet) error     { return nil }
func (s *recStore) BroadcastedSets() ([]wallet.BroadcastedSet, error) { return nil, nil }
func (s *recStore) RemoveBroadcastedSet(wallet.BroadcastedSet) error  { return nil }
func (s *recStore) UpdateChainState(fn func(wallet.UpdateTx) error) error {
	s.mu.Lock()
	defer s.mu.Unlock()
	if err := fn(s); err != nil {
		return err
	}
	return s.fault
}

func (s *recStore) fail(f string, a ...any) error {
	err := fmt.Errorf(f, a...)
	if s.fault == nil {
		s.fault = err
	}
	return err
}

// UpdateWalletSiacoinElementProofs implements wallet.UpdateTx.
func (s *recStore) UpdateWalletSiacoinElementProofs(pu wallet.ProofUpdater) error {
	for id, e := range s.utxos {
		e = e.Copy()
		pu.UpdateElementProof(&e.StateElement)
		s.utxos[id] = e
	}
	return nil
}

// WalletApplyIndex implements wallet.UpdateTx.
func (s *recStore) WalletApplyIndex(index types.ChainIndex, created, spent []types.SiacoinElement, events []wallet.Event, _ time.Time) error {
	if t := s.tipLocked(); t != (types.ChainIndex{}) && index.Height != t.Height+1 {
		return s.fail("apply of %v handed to a store that is at %v", index, t)
	}
	for _, e := range spent {
		if _, ok := s.utxos[e.ID]; !ok {
			return s.fail("apply of %v spends output %v that the store does not hold", index, e.ID)
		}
		delete(s.utxos, e.ID)
	}
	for _, e := range created {
		if _, ok := s.utxos[e.ID]; ok {
			return s.fail("apply of %v creates output %v that the store already holds", index, e.ID)
		}
		s.utxos[e.ID] = e.Copy()
	}
	for _, ev := range events {
		if ev.Index != index {
			return s.fail("apply of %v carries an event with index %v", index, ev.Index)
		}
	}
	s.events = append(s.events, events...)
	s.tips = append(s.tips, index)
	return nil
}

// WalletRevertIndex implements wallet.UpdateTx.
func (s *recStore) WalletRevertIndex(index types.ChainIndex, removed, unspent []types.SiacoinElement, _ time.Time) error {
	if t := s.tipLocked(); t != index {
		return s.fail("revert of %v handed to a store that is at %v", index, t)
	}
	kept := s.events[:0]
	for _, ev := range s.events {
		if ev.Index == index {
			s.revertedTypes[ev.Type]++
			continue
		}
		kept = append(kept, ev)
	}
	s.events = kept
	for _, e := range removed {
		if _, ok := s.utxos[e.ID]; !ok {
			return s.fail("revert of %v removes output %v that the store does not hold", index, e.ID)
		}
		delete(s.utxos, e.ID)
	}
	for _, e := range unspent {
		if _, ok := s.utxos[e.ID]; ok {
			return s.fail("revert of %v restores output %v that the store already holds", index, e.ID)
		}
		s.utxos[e.ID] = e.Copy()
	}
	s.tips = s.tips[:len(s.tips)-1]
	s.reverts++
	return nil
}

// ---------------------------------------------------------------- wallets under test

type c06Store interface {
	wallet.SingleAddressStore
	UpdateChainState(func(wallet.UpdateTx) error) error
}

type c06Wallet struct {
	name  string
	store c06Store
	rec   *recStore // non-nil for the harness store
	w     *wallet.SingleAddressWallet
	// reorg bookkeeping for the non-trivial rule (harness store only)
	pendingReverts int
	pendingTypes   map[string]int
}

func newC06Wallet(name string, store c06Store, key types.PrivateKey, cm *chain.Manager) (*c06Wallet, error) {
	w, err := wallet.NewSingleAddressWallet(key, cm, store, &testutil.MockSyncer{}, wallet.WithDebounceInterval(time.Hour))
	if err != nil {
		return nil, err
	}
	cw := &c06Wallet{name: name, store: store, w: w, pendingTypes: map[string]int{}}
	cw.rec, _ = store.(*recStore)
	return cw, nil
}

// syncCall performs one UpdatesSince + UpdateChainState round.
func (cw *c06Wallet) syncCall(cm *chain.Manager, maxN int, cs *kit.CaseStats) (progressed bool, err error) {
	tip, err := cw.store.Tip()
	if err != nil {
		return false, err
	}
	if tip == cm.Tip() {
		return false, nil
	}
	rus, aus, err := cm.UpdatesSince(tip, maxN)
	if err != nil {
		return false, fmt.Errorf("%s: UpdatesSince(%v, %d) failed for an index the store was left at: %w", cw.name, tip, maxN, err)
	}
	if len(rus)+len(aus) == 0 {
		return false, fmt.Errorf("%s: UpdatesSince(%v, %d) returned nothing although the tip is %v", cw.name, tip, maxN, cm.Tip())
	}
	var typesBefore map[string]int
	if cw.rec != nil {
		typesBefore = map[string]int{}
		for k, v := range cw.rec.revertedTypes {
			typesBefore[k] = v
		}
	}
	if err := cw.store.UpdateChainState(func(tx wallet.UpdateTx) error {
		return cw.w.UpdateChainState(tx, rus, aus)
	}); err != nil {
		return false, fmt.Errorf("%s: UpdateChainState(%d reverts, %d applies from %v): %w", cw.name, len(rus), len(aus), tip, err)
	}
	want := tip
	if len(aus) > 0 {
		want = aus[len(aus)-1].State.Index
	} else {
		want = rus[len(rus)-1].State.Index
	}
	got, _ := cw.store.Tip()
	if got != want {
		return false, fmt.Errorf("%s: after %d reverts and %d applies the stream is at %v, the store says %v", cw.name, len(rus), len(aus), want, got)
	}
	if cw.rec != nil {
		cw.pendingReverts += len(rus)
		for k, v := range cw.rec.revertedTypes {
			if d := v - typesBefore[k]; d > 0 {
				cw.pendingTypes[k] += d
				cs.Class("event-reverted=" + k)
			}
		}
		if len(rus) > 0 && len(aus) == 0 {
			cs.Class("chunk-ends-on-a-revert")
		}
		if len(rus) > 0 && len(aus) > 0 {
			cs.Class("chunk-with-reverts-and-applies")
		}
	}
	return true, nil
}

// ---------------------------------------------------------------- oracle

func encEvent(ev wallet.Event) []byte { return refl.Enc(&ev) }

func allEvents(store wallet.SingleAddressStore) ([]wallet.Event, error) {
	n, err := store.WalletEventCount()
	if err != nil {
		return nil, err
	}
	var out []wallet.Event
	for off := 0; off < int(n); off += 50 {
		evs, err := store.WalletEvents(off, 50)
		if err != nil {
			return nil, err
		}
		out = append(out, evs...)
	}
	if len(out) != int(n) {
		return nil, fmt.Errorf("WalletEventCount = %d but paging returned %d events", n, len(out))
	}
	return out, nil
}

func sortedEncodings(evs []wallet.Event) [][]byte {
	out := make([][]byte, len(evs))
	for i, ev := range evs {
		out[i] = encEvent(ev)
	}
	sort.Slice(out, func(i, j int) bool { return bytes.Compare(out[i], out[j]) < 0 })
	return out
}

func describeEvent(ev wallet.Event) string {
	return fmt.Sprintf("{%s id=%v index=%v maturity=%d in=%v out=%v}", ev.Type, ev.ID, ev.Index, ev.MaturityHeight, ev.SiacoinInflow(), ev.SiacoinOutflow())
}

// linearEvents syncs a fresh wallet (harness store, chunk 1, applies only)
// over a fresh node that was fed exactly the path to tn, block by block.
func linearEvents(tr *kit.Tree, tn *kit.TNode, key types.PrivateKey) ([]wallet.Event, error) {
	twin, err := kit.NewNode(tr, "mem")
	if err != nil {
		return nil, fmt.Errorf("INFRA: %w", err)
	}
	defer twin.Close()
	for _, p := range tn.PathFromGenesis() {
		if err := twin.Submit([]types.Block{p.Block}); err != nil {
			return nil, fmt.Errorf("INFRA: linear twin rejected best-chain block %v: %w", p.Index(), err)
		}
	}
	if twin.CM.Tip() != tn.Index() {
		return nil, fmt.Errorf("INFRA: linear twin ended on %v, want %v", twin.CM.Tip(), tn.Index())
	}
	lw, err := newC06Wallet("linear twin wallet", newRecStore(), key, twin.CM)
	if err != nil {
		return nil, fmt.Errorf("INFRA: %w", err)
	}
	defer lw.w.Close()
	for i := 0; ; i++ {
		progressed, err := lw.syncCall(twin.CM, 1, nil)
		if err != nil {
			return nil, err
		}
		if !progressed {
			break
		}
		if i > 10000 {
			return nil, errors.New("INFRA: linear twin wallet does not reach the tip")
		}
	}
	if lw.rec.reverts != 0 {
		return nil, errors.New("INFRA: linear twin wallet saw a revert")
	}
	return allEvents(lw.store)
}

// wantEvent is what the chain itself says about one wallet-relevant event,
// derived from the blocks and the reference ledgers of the best chain only (no
// code of the wallet is involved).
type wantEvent struct {
	typ      string
	index    types.ChainIndex
	inflow   types.Currency
	outflow  types.Currency
	maturity uint64 // payouts only
	payout   bool
}

// expectedEvents walks the best chain: every siacoin element a block creates
// for the address that is not a transaction output is a payout (miner,
// foundation, siafund claim, contract resolution) and must have its own event;
// every transaction whose siacoin inputs owned by the address and outputs paying
// the address differ in sum must have a transaction event.
func expectedEvents(tn *kit.TNode, addr types.Address) map[types.Hash256]wantEvent {
	out := map[types.Hash256]wantEvent{}
	path := append([]*kit.TNode{}, tn.PathFromGenesis()...)
	// genesis first
	root := tn
	for root.Parent != nil {
		root = root.Parent
	}
	path = append([]*kit.TNode{root}, path...)
	for _, p := range path {
		idx := p.Index()
		var before map[types.SiacoinOutputID]types.SiacoinElement
		if p.Parent != nil {
			before = p.Parent.Ledger.SCE
		}
		txOutputs := map[types.SiacoinOutputID]types.SiacoinOutput{}
		claims := map[types.SiacoinOutputID]bool{}
		for _, txn := range p.Block.Transactions {
			for i, o := range txn.SiacoinOutputs {
				txOutputs[txn.SiacoinOutputID(i)] = o
			}
			for _, si := range txn.SiafundInputs {
				claims[si.ParentID.ClaimOutputID()] = true
			}
		}
		for _, txn := range p.Block.V2Transactions() {
			txid := txn.ID()
			for i, o := range txn.SiacoinOutputs {
				txOutputs[txn.SiacoinOutputID(txid, i)] = o
			}
			for _, si := range txn.SiafundInputs {
				claims[types.SiafundOutputID(si.Parent.ID).V2ClaimOutputID()] = true
			}
		}
		// transaction events
		for _, txn := range p.Block.Transactions {
			var in, outv types.Currency
			for _, o := range txn.SiacoinOutputs {
				if o.Address == addr {
					in = in.Add(o.Value)
				}
			}
			for _, si := range txn.SiacoinInputs {
				if si.UnlockConditions.UnlockHash() != addr {
					continue
				}
				if e, ok := before[si.ParentID]; ok {
					outv = outv.Add(e.SiacoinOutput.Value)
				} else if o, ok := txOutputs[si.ParentID]; ok {
					outv = outv.Add(o.Value)
				}
			}
			if !in.Equals(outv) {
				out[types.Hash256(txn.ID())] = wantEvent{typ: wallet.EventTypeV1Transaction, index: idx, inflow: in, outflow: outv}
			}
		}
		for _, txn := range p.Block.V2Transactions() {
			var in, outv types.Currency
			for _, o := range txn.SiacoinOutputs {
				if o.Address == addr {
					in = in.Add(o.Value)
				}
			}
			for _, si := range txn.SiacoinInputs {
				if si.Parent.SiacoinOutput.Address == addr {
					outv = outv.Add(si.Parent.SiacoinOutput.Value)
				}
			}
			if !in.Equals(outv) {
				out[types.Hash256(txn.ID())] = wantEvent{typ: wallet.EventTypeV2Transaction, index: idx, inflow: in, outflow: outv}
			}
		}
		// payouts: created elements that are not transaction outputs (they have a
		// maturity delay, so they cannot be spent inside the creating block)
		bid := p.Block.ID()
		for id, e := range p.Ledger.SCE {
			if _, old := before[id]; old || e.SiacoinOutput.Address != addr || e.SiacoinOutput.Value.IsZero() {
				continue
			}
			if _, isTxOut := txOutputs[id]; isTxOut {
				continue
			}
			we := wantEvent{index: idx, inflow: e.SiacoinOutput.Value, maturity: e.MaturityHeight, payout: true}
			switch {
			case claims[id]:
				we.typ = wallet.EventTypeSiafundClaim
			case id == bid.FoundationOutputID():
				we.typ = wallet.EventTypeFoundationSubsidy
			default:
				we.typ = "contract"
				for i := range p.Block.MinerPayouts {
					if id == bid.MinerOutputID(i) {
						we.typ = wallet.EventTypeMinerPayout
					}
				}
			}
			out[types.Hash256(id)] = we
		}
	}
	return out
}

// checkEventPayload checks the data an event carries against the block it
// belongs to and the reference ledger before that block: the paid element, the
// Missed flag of contract resolutions, and the spent elements of v1 transactions.
func checkEventPayload(ev wallet.Event, tn *kit.TNode, addr types.Address) error {
	var p *kit.TNode
	for a := tn; a != nil; a = a.Parent {
		if a.Index() == ev.Index {
			p = a
			break
		}
	}
	if p == nil {
		return fmt.Errorf("its block is not an ancestor of the tip")
	}
	if !ev.Timestamp.Equal(p.Block.Timestamp) {
		return fmt.Errorf("timestamp %v, the block's is %v", ev.Timestamp, p.Block.Timestamp)
	}
	var before map[types.SiacoinOutputID]types.SiacoinElement
	if p.Parent != nil {
		before = p.Parent.Ledger.SCE
	}
	paid := func(e types.SiacoinElement) error {
		if types.Hash256(e.ID) != ev.ID {
			return fmt.Errorf("carries element %v", e.ID)
		}
		if e.SiacoinOutput.Address != addr {
			return fmt.Errorf("its element pays %v, not the wallet", e.SiacoinOutput.Address)
		}
		// the element as the block created it: value, maturity and leaf index
		// never change afterwards, so the tip's ledger (if it is still unspent)
		// or any later ledger on the path has the same
		for a := tn; a != nil && a.Height >= p.Height; a = a.Parent {
			if le, ok := a.Ledger.SCE[e.ID]; ok {
				if le.SiacoinOutput != e.SiacoinOutput || le.MaturityHeight != e.MaturityHeight || le.StateElement.LeafIndex != e.StateElement.LeafIndex {
					return fmt.Errorf("its element {%v, maturity %d, leaf %d} differs from the chain's {%v, maturity %d, leaf %d}", e.SiacoinOutput.Value, e.MaturityHeight, e.StateElement.LeafIndex, le.SiacoinOutput.Value, le.MaturityHeight, le.StateElement.LeafIndex)
				}
				break
			}
		}
		return nil
	}
	switch d := ev.Data.(type) {
	case wallet.EventPayout:
		return paid(d.SiacoinElement)
	case wallet.EventV1ContractResolution:
		if err := paid(d.SiacoinElement); err != nil {
			return err
		}
		fce, ok := p.Parent.Ledger.FCE[d.Parent.ID]
		if !ok {
			return fmt.Errorf("names contract %v, which was not live before the block", d.Parent.ID)
		}
		if !bytes.Equal(refl.Enc(fce.FileContract), refl.Enc(d.Parent.FileContract)) {
			return fmt.Errorf("carries a contract body that differs from the live contract %v", d.Parent.ID)
		}
		wantMissed, found := false, false
		for i := range fce.FileContract.ValidProofOutputs {
			if d.Parent.ID.ValidOutputID(i) == d.SiacoinElement.ID {
				found = true
			}
		}
		for i := range fce.FileContract.MissedProofOutputs {
			if d.Parent.ID.MissedOutputID(i) == d.SiacoinElement.ID {
				found, wantMissed = true, true
			}
		}
		if !found {
			return fmt.Errorf("its element is not a payout of contract %v", d.Parent.ID)
		}
		if d.Missed != wantMissed {
			return fmt.Errorf("Missed=%v but the paid output is a %s proof output", d.Missed, map[bool]string{true: "missed", false: "valid"}[wantMissed])
		}
	case wallet.EventV2ContractResolution:
		if err := paid(d.SiacoinElement); err != nil {
			return err
		}
		id := d.Resolution.Parent.ID
		if id.V2RenterOutputID() != d.SiacoinElement.ID && id.V2HostOutputID() != d.SiacoinElement.ID {
			return fmt.Errorf("its element is not a payout of contract %v", id)
		}
		found := false
		for _, txn := range p.Block.V2Transactions() {
			for _, res := range txn.FileContractResolutions {
				if res.Parent.ID != id {
					continue
				}
				found = true
				_, expired := res.Resolution.(*types.V2FileContractExpiration)
				if d.Missed != expired {
					return fmt.Errorf("Missed=%v but the block resolves the contract with a %T", d.Missed, res.Resolution)
				}
				if fmt.Sprintf("%T", res.Resolution) != fmt.Sprintf("%T", d.Resolution.Resolution) {
					return fmt.Errorf("carries a %T, the block has a %T", d.Resolution.Resolution, res.Resolution)
				}
			}
		}
		if !found {
			return fmt.Errorf("the block does not resolve contract %v", id)
		}
	case wallet.EventV1Transaction:
		var txn *types.Transaction
		for i := range p.Block.Transactions {
			if types.Hash256(p.Block.Transactions[i].ID()) == ev.ID {
				txn = &p.Block.Transactions[i]
			}
		}
		if txn == nil {
			return fmt.Errorf("the block has no such transaction")
		}
		if !bytes.Equal(refl.Enc(*txn), refl.Enc(d.Transaction)) {
			return fmt.Errorf("carries a transaction that differs from the block's")
		}
		created := map[types.SiacoinOutputID]types.SiacoinOutput{}
		for _, t := range p.Block.Transactions {
			for i, o := range t.SiacoinOutputs {
				created[t.SiacoinOutputID(i)] = o
			}
		}
		var want []types.SiacoinOutputID
		for _, si := range txn.SiacoinInputs {
			if si.UnlockConditions.UnlockHash() == addr {
				want = append(want, si.ParentID)
			}
		}
		if len(want) != len(d.SpentSiacoinElements) {
			return fmt.Errorf("lists %d spent elements, the transaction spends %d outputs of the wallet", len(d.SpentSiacoinElements), len(want))
		}
		for i, e := range d.SpentSiacoinElements {
			if e.ID != want[i] {
				return fmt.Errorf("spent element %d is %v, the transaction's input is %v", i, e.ID, want[i])
			}
			if le, ok := before[e.ID]; ok {
				if le.SiacoinOutput != e.SiacoinOutput {
					return fmt.Errorf("spent element %v carries %v, the chain has %v", e.ID, e.SiacoinOutput.Value, le.SiacoinOutput.Value)
				}
			} else if o, ok := created[e.ID]; !ok || o != e.SiacoinOutput {
				return fmt.Errorf("spent element %v is neither unspent before the block nor created in it with that value", e.ID)
			}
		}
	case wallet.EventV2Transaction:
		found := false
		for _, t := range p.Block.V2Transactions() {
			if types.Hash256(t.ID()) == ev.ID {
				found = true
				if !bytes.Equal(refl.Enc(t), refl.Enc(types.V2Transaction(d))) {
					return fmt.Errorf("carries a transaction that differs from the block's")
				}
			}
		}
		if !found {
			return fmt.Errorf("the block has no such transaction")
		}
	}
	return nil
}

// checkEventsAgainstChain is the independent event oracle.
func checkEventsAgainstChain(where string, evs []wallet.Event, tn *kit.TNode, addr types.Address) error {
	want := expectedEvents(tn, addr)
	seen := map[types.Hash256]bool{}
	for _, ev := range evs {
		if seen[ev.ID] {
			return fmt.Errorf("%s: two events with id %v", where, ev.ID)
		}
		seen[ev.ID] = true
		w, ok := want[ev.ID]
		if !ok {
			return fmt.Errorf("%s: event %s does not correspond to a payout to, or a net siacoin movement of, the wallet address on the best chain", where, describeEvent(ev))
		}
		typ := ev.Type
		if typ == wallet.EventTypeV1ContractResolution || typ == wallet.EventTypeV2ContractResolution {
			typ = "contract"
		}
		if typ != w.typ || ev.Index != w.index {
			return fmt.Errorf("%s: event %s should be a %s event of block %v", where, describeEvent(ev), w.typ, w.index)
		}
		if !ev.SiacoinInflow().Equals(w.inflow) || !ev.SiacoinOutflow().Equals(w.outflow) {
			return fmt.Errorf("%s: event %s: the chain says inflow %v, outflow %v for the wallet address", where, describeEvent(ev), w.inflow, w.outflow)
		}
		if w.payout && ev.MaturityHeight != w.maturity {
			return fmt.Errorf("%s: event %s: the paid output matures at %d", where, describeEvent(ev), w.maturity)
		}
		if !w.payout && ev.MaturityHeight != w.index.Height {
			return fmt.Errorf("%s: transaction event %s: maturity height %d is not the block height", where, describeEvent(ev), ev.MaturityHeight)
		}
		if len(ev.Relevant) != 1 || ev.Relevant[0] != addr {
			return fmt.Errorf("%s: event %s lists relevant addresses %v", where, describeEvent(ev), ev.Relevant)
		}
		if err := checkEventPayload(ev, tn, addr); err != nil {
			return fmt.Errorf("%s: event %s: %w", where, describeEvent(ev), err)
		}
	}
	for id, w := range want {
		if !seen[id] {
			return fmt.Errorf("%s: no event for %s %v of block %v (inflow %v, outflow %v for the wallet address)", where, w.typ, id, w.index, w.inflow, w.outflow)
		}
	}
	return nil
}

// checkWallet is the C06 oracle for one wallet that has reached the tip.
func checkWallet(cw *c06Wallet, node *kit.Node, tn *kit.TNode, addr types.Address, linear []wallet.Event, cs *kit.CaseStats) error {
	where := fmt.Sprintf("%s at tip %v", cw.name, tn.Index())
	tip, utxos, err := cw.store.UnspentSiacoinElements()
	if err != nil {
		return fmt.Errorf("%s: %w", where, err)
	}
	if tip != tn.Index() {
		return fmt.Errorf("%s: store tip is %v", where, tip)
	}
	// (1) unspent outputs = the ledger's outputs paying the address, proofs byte-equal
	want := map[types.SiacoinOutputID]types.SiacoinElement{}
	var wantSum types.Currency
	for id, e := range tn.Ledger.SCE {
		if e.SiacoinOutput.Address == addr {
			want[id] = e
			wantSum = wantSum.Add(e.SiacoinOutput.Value)
		}
	}
	seen := map[types.SiacoinOutputID]bool{}
	for _, u := range utxos {
		if seen[u.ID] {
			return fmt.Errorf("%s: output %v is stored twice", where, u.ID)
		}
		seen[u.ID] = true
		e, ok := want[u.ID]
		if !ok {
			if le, in := tn.Ledger.SCE[u.ID]; in {
				return fmt.Errorf("%s: stored output %v pays %v, not the wallet", where, u.ID, le.SiacoinOutput.Address)
			}
			return fmt.Errorf("%s: stored output %v (value %v, maturity %d) is not unspent on the best chain", where, u.ID, u.SiacoinOutput.Value, u.MaturityHeight)
		}
		if u.SiacoinOutput != e.SiacoinOutput || u.MaturityHeight != e.MaturityHeight {
			return fmt.Errorf("%s: stored output %v is {%v, maturity %d}, the chain has {%v, maturity %d}", where, u.ID, u.SiacoinOutput.Value, u.MaturityHeight, e.SiacoinOutput.Value, e.MaturityHeight)
		}
		if !bytes.Equal(refl.Enc(u), refl.Enc(e)) {
			return fmt.Errorf("%s: stored output %v has leaf index %d and a %d-hash proof, the accumulator at the tip has leaf index %d and a %d-hash proof (or different hashes)", where, u.ID, u.StateElement.LeafIndex, len(u.StateElement.MerkleProof), e.StateElement.LeafIndex, len(e.StateElement.MerkleProof))
		}
	}
	for id, e := range want {
		if !seen[id] {
			return fmt.Errorf("%s: output %v (value %v, maturity %d) pays the wallet and is unspent on the best chain, but is not stored", where, id, e.SiacoinOutput.Value, e.MaturityHeight)
		}
	}
	// proofs verify at the tip through core (independent of the byte comparison)
	var vt types.V2Transaction
	for _, u := range utxos {
		vt.SiacoinInputs = append(vt.SiacoinInputs, types.V2SiacoinInput{Parent: u.Copy()})
	}
	if err := tn.Ledger.State.Elements.ValidateTransactionElements(vt); err != nil {
		return fmt.Errorf("%s: a stored Merkle proof does not verify at the tip: %v", where, err)
	}
	// (2) events: multiset equality with the linearly synced wallet
	evs, err := allEvents(cw.store)
	if err != nil {
		return fmt.Errorf("%s: %w", where, err)
	}
	if cw.rec == nil {
		// the store interface documents the listing: ordered by maturity height,
		// descending, paginated, (nil, nil) past the end
		for i := 1; i < len(evs); i++ {
			if evs[i-1].MaturityHeight < evs[i].MaturityHeight {
				return fmt.Errorf("%s: WalletEvents is not ordered by maturity height, descending: %d before %d at position %d", where, evs[i-1].MaturityHeight, evs[i].MaturityHeight, i)
			}
		}
		var paged []wallet.Event
		for off := 0; ; off += 3 {
			page, err := cw.store.WalletEvents(off, 3)
			if err != nil {
				return fmt.Errorf("%s: %w", where, err)
			}
			if len(page) == 0 {
				break
			}
			if len(page) > 3 {
				return fmt.Errorf("%s: WalletEvents(%d, 3) returned %d events", where, off, len(page))
			}
			paged = append(paged, page...)
		}
		if len(paged) != len(evs) {
			return fmt.Errorf("%s: pages of 3 return %d events, pages of 50 return %d", where, len(paged), len(evs))
		}
		for i := range evs {
			if !bytes.Equal(encEvent(evs[i]), encEvent(paged[i])) {
				return fmt.Errorf("%s: pages of 3 and pages of 50 list different events at position %d", where, i)
			}
		}
		if page, err := cw.store.WalletEvents(len(evs)+1, 3); err != nil || page != nil {
			return fmt.Errorf("%s: WalletEvents past the end returned (%d events, %v), documented is (nil, nil)", where, len(page), err)
		}
	}
	got, lin := sortedEncodings(evs), sortedEncodings(linear)
	byEnc := func(list []wallet.Event) map[string]wallet.Event {
		m := map[string]wallet.Event{}
		for _, ev := range list {
			m[string(encEvent(ev))] = ev
		}
		return m
	}
	if len(got) != len(lin) || !func() bool {
		for i := range got {
			if !bytes.Equal(got[i], lin[i]) {
				return false
			}
		}
		return true
	}() {
		gm, lm := byEnc(evs), byEnc(linear)
		var extra, missing []string
		for k, ev := range gm {
			if _, ok := lm[k]; !ok {
				extra = append(extra, describeEvent(ev))
			}
		}
		for k, ev := range lm {
			if _, ok := gm[k]; !ok {
				missing = append(missing, describeEvent(ev))
			}
		}
		sort.Strings(extra)
		sort.Strings(missing)
		return fmt.Errorf("%s: the event list (%d) differs from the one of a wallet synced linearly over the same best chain (%d): only here %v; only in the linear wallet %v (or a different multiplicity)", where, len(got), len(lin), extra, missing)
	}
	// (2b) events against the chain itself
	if err := checkEventsAgainstChain(where, evs, tn, addr); err != nil {
		return err
	}
	// (3) every event is of a best-chain block, (4) conservation
	var inflow, outflow types.Currency
	for _, ev := range evs {
		if bi, ok := node.CM.BestIndex(ev.Index.Height); !ok || bi != ev.Index {
			return fmt.Errorf("%s: event %s belongs to %v, which is not on the best chain", where, describeEvent(ev), ev.Index)
		}
		inflow = inflow.Add(ev.SiacoinInflow())
		outflow = outflow.Add(ev.SiacoinOutflow())
		cs.Class("event-kept=" + ev.Type)
	}
	// roles of the address that meet in one block
	byBlock := map[types.ChainIndex]map[string]bool{}
	for _, ev := range evs {
		m := byBlock[ev.Index]
		if m == nil {
			m = map[string]bool{}
			byBlock[ev.Index] = m
		}
		if (ev.Type == wallet.EventTypeV1Transaction || ev.Type == wallet.EventTypeV2Transaction) && !ev.SiacoinOutflow().IsZero() {
			m["spend"] = true
		} else if ev.Type != wallet.EventTypeV1Transaction && ev.Type != wallet.EventTypeV2Transaction {
			m[ev.Type] = true
		}
	}
	for _, m := range byBlock {
		if !m["spend"] {
			continue
		}
		n := 0
		for typ := range m {
			if typ != "spend" {
				cs.Class("same-block=own-spend+" + typ)
				n++
			}
		}
		if n >= 2 {
			cs.Class("same-block=own-spend+two-or-more-payout-kinds")
		}
	}
	if !inflow.Equals(outflow.Add(wantSum)) {
		return fmt.Errorf("%s: conservation fails: Σ event inflow %v − Σ event outflow %v ≠ Σ unspent outputs paying the wallet %v (%d events, %d outputs)%s", where, inflow, outflow, wantSum, len(evs), len(want), conservationHint(tn, addr))
	}
	// (5) Balance() is the same money
	bal, err := cw.w.Balance()
	if err != nil {
		return fmt.Errorf("%s: Balance: %w", where, err)
	}
	var mature, immature types.Currency
	for _, e := range want {
		if e.MaturityHeight > tn.Height {
			immature = immature.Add(e.SiacoinOutput.Value)
		} else {
			mature = mature.Add(e.SiacoinOutput.Value)
		}
	}
	if !bal.Confirmed.Equals(mature) || !bal.Immature.Equals(immature) {
		return fmt.Errorf("%s: Balance() says confirmed %v / immature %v, the chain has %v / %v for the address", where, bal.Confirmed, bal.Immature, mature, immature)
	}
	if !immature.IsZero() {
		cs.Class("immature-output-at-check")
	}
	return nil
}

// conservationHint names the first best-chain transaction that gives or takes
// wallet money through a siafund claim, to make the report readable.
func conservationHint(tn *kit.TNode, addr types.Address) string {
	for _, p := range tn.PathFromGenesis() {
		for _, txn := range p.Block.Transactions {
			for _, si := range txn.SiafundInputs {
				if si.ClaimAddress == addr || si.UnlockConditions.UnlockHash() == addr {
					return fmt.Sprintf("; e.g. block %v has v1 transaction %v with a siafund input owned by %v paying its claim to %v", p.Index(), txn.ID(), kit.ActorOf(si.UnlockConditions.UnlockHash()), kit.ActorOf(si.ClaimAddress))
				}
			}
		}
		for _, txn := range p.Block.V2Transactions() {
			for _, si := range txn.SiafundInputs {
				if si.ClaimAddress == addr || si.Parent.SiafundOutput.Address == addr {
					return fmt.Sprintf("; e.g. block %v has v2 transaction %v with a siafund input owned by actor %v paying its claim to actor %v", p.Index(), txn.ID(), kit.ActorOf(si.Parent.SiafundOutput.Address), kit.ActorOf(si.ClaimAddress))
				}
			}
		}
	}
	return ""
}

// ---------------------------------------------------------------- run

func runC06(c C06Case, cs *kit.CaseStats) error {
	tr := kit.BuildTree(c.Tree)
	node, err := kit.NewNode(tr, "mem")
	if err != nil {
		return fmt.Errorf("INFRA: %v", err)
	}
	defer node.Close()
	actor := kit.Actors[modInt(c.Wallet, kit.NumActors)]
	addr := actor.Addr
	cs.Classf("wallet-actor=%d", modInt(c.Wallet, kit.NumActors))

	hw, err := newC06Wallet("wallet on the harness store", newRecStore(), actor.SK, node.CM)
	if err != nil {
		return fmt.Errorf("INFRA: %v", err)
	}
	defer hw.w.Close()
	rw, err := newC06Wallet("wallet on testutil.EphemeralWalletStore", testutil.NewEphemeralWalletStore(), actor.SK, node.CM)
	if err != nil {
		return fmt.Errorf("INFRA: %v", err)
	}
	defer rw.w.Close()
	if hw.w.Address() != addr {
		return fmt.Errorf("INFRA: wallet address mismatch")
	}
	_ = func(id types.BlockID) bool { _, ok := node.CM.State(id); return ok }
	linearCache := map[types.BlockID][]wallet.Event{}
	checks := 0

	oracle := func(cw *c06Wallet, when string) error {
		tn := node.TipNode()
		if tn == nil || tn.Ledger == nil {
			return fmt.Errorf("INFRA: manager tip %v is not a valid tree node", node.CM.Tip())
		}
		lin, ok := linearCache[tn.ID]
		if !ok {
			lin, err = linearEvents(tr, tn, actor.SK)
			if err != nil {
				return err
			}
			linearCache[tn.ID] = lin
		}
		if err := checkWallet(cw, node, tn, addr, lin, cs); err != nil {
			return fmt.Errorf("%s: %w", when, err)
		}
		checks++
		if cw.rec != nil {
			// the wallet is back on the best chain: close the reorg bookkeeping
			if cw.pendingReverts >= 1 {
				cs.Classf("wallet-reorg-depth=%d", min(cw.pendingReverts, 5))
			}
			moved := cw.pendingTypes[wallet.EventTypeV1ContractResolution] + cw.pendingTypes[wallet.EventTypeV2ContractResolution]
			maturity := cw.pendingTypes[wallet.EventTypeMinerPayout] + cw.pendingTypes[wallet.EventTypeFoundationSubsidy] + cw.pendingTypes[wallet.EventTypeSiafundClaim] + moved
			if cw.pendingReverts >= 2 && moved > 0 {
				cs.Class("reorg>=2-moves-contract-payout")
				cs.NonTrivial()
			}
			if cw.pendingReverts >= 2 && maturity > 0 {
				cs.Class("reorg>=2-reverts-maturing-output")
				cs.NonTrivial()
			}
			cw.pendingReverts, cw.pendingTypes = 0, map[string]int{}
		}
		return nil
	}

	syncBoth := func(si int, st SyncStep) error {
		for _, cw := range []*c06Wallet{hw, rw} {
			calls := clampInt(st.Calls, 1, 50)
			for i := 0; i < calls; i++ {
				progressed, err := cw.syncCall(node.CM, max(1, st.Max), cs)
				if err != nil {
					return fmt.Errorf("step %d: %w", si, err)
				}
				if !progressed {
					break
				}
			}
			if tip, _ := cw.store.Tip(); tip == node.CM.Tip() {
				if err := oracle(cw, fmt.Sprintf("step %d (sync max=%d calls=%d)", si, st.Max, st.Calls)); err != nil {
					return err
				}
			} else if cw.rec != nil {
				cs.Class("sync-step-leaves-wallet-behind")
				if bi, ok := node.CM.BestIndex(tip.Height); !ok || bi != tip {
					cs.Class("sync-step-leaves-wallet-on-stale-branch")
				}
			}
		}
		return nil
	}

	for si, st := range c.Steps {
		switch {
		case st.Submit != nil:
			_, blocks, states, validated := tr.ResolveBatch(*st.Submit, node.ValidatedParent)
			if len(blocks) == 0 {
				continue
			}
			if validated {
				for _, b := range blocks {
					node.Submitted[b.ID()] = true
				}
				_ = node.CM.AddValidatedV2Blocks(blocks, states)
			} else {
				_ = node.Submit(blocks)
			}
			if aerr := node.Audit(); aerr != nil {
				return fmt.Errorf("INFRA (C01's subject): step %d: %w", si, aerr)
			}
		case st.Sync != nil:
			if err := syncBoth(si, *st.Sync); err != nil {
				return err
			}
		}
	}
	// final: both wallets reach the tip with the drawn chunk size
	if err := syncBoth(len(c.Steps), SyncStep{Max: max(1, c.FinalChunk), Calls: 50}); err != nil {
		return err
	}
	for _, cw := range []*c06Wallet{hw, rw} {
		for n := 0; ; n++ {
			tip, _ := cw.store.Tip()
			if tip == node.CM.Tip() {
				break
			}
			if n > 2000 {
				return fmt.Errorf("%s does not reach the tip %v in chunks of %d (at %v)", cw.name, node.CM.Tip(), c.FinalChunk, tip)
			}
			if _, err := cw.syncCall(node.CM, max(1, c.FinalChunk), cs); err != nil {
				return fmt.Errorf("final: %w", err)
			}
		}
		if err := oracle(cw, "final"); err != nil {
			return err
		}
	}
	cs.Classf("oracle-evaluations=%d", min(checks/4*4, 16))
	return nil
}

var c06Prop = kit.Prop[C06Case]{
	ID:   "C06",
	Rule: "histories as in C02 (fork trees over all hardfork regimes, generic intents that make every actor miner, payee, spender, v1/v2 contract party with valid/missed/renewed/expired payouts, siafund owner and claim address, actor 0 = foundation address; unique v1 windows) with one drawn actor as the wallet address; submission schedule interleaved with sync steps (UpdatesSince chunk sizes 1,2,3,7,1000, 1..50 calls, so the wallet is left behind, on stale branches and in the middle of reorg paths, chunks ending on reverts). Two wallets.SingleAddressWallet consume the stream: one on a strict harness store that records the index the stream left it at, one on testutil.EphemeralWalletStore. Whenever a wallet has reached the manager's tip: stored outputs = reference-ledger outputs paying the address (id, value, maturity, leaf index and proof bytes; proofs verified through core), event multiset = that of a wallet synced linearly (chunk 1, applies only) over a fresh node fed exactly the best chain, every event index on the best chain, Σ inflow − Σ outflow = Σ unspent outputs, Balance().Confirmed/Immature = the chain's sums. Non-trivial = the wallet went through a reorg of depth >= 2 that reverted a contract-resolution event or a maturing payout (miner, foundation, siafund claim, contract) of the wallet; distinct by hash of the case.",
	Assumptions: []string{
		"go.sia.tech/core decides validity and defines the element diffs; the reference ledger (refl) is built on core only",
		"the store records as its tip the index the update stream left it at (the property's stated precondition); asserted after every UpdateChainState call for both stores",
		"v1 contracts use unique proof windows (the history dependence of shared windows is C02's known finding)",
		"wallets start from the zero index and are only fed what UpdatesSince returns for their own tip",
	},
	Gen: genC06,
	Run: runC06,
}

func TestC06(t *testing.T) { c06Prop.Main(t) }
