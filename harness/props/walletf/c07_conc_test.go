package pwalletf

import (
	"errors"
	"fmt"
	"math"
	"sync"
	"sync/atomic"
	"testing"
	"time"

	"go.sia.tech/core/types"
	"go.sia.tech/coreutils/wallet"
	"pgregory.net/rapid"

	"verif/kit"
)

// ConcOp is one call issued by a worker goroutine.
type ConcOp struct {
	K    string `json:"k"` // fund redist split release read
	V2   bool   `json:"v2,omitempty"`
	U    bool   `json:"u,omitempty"`
	A    int    `json:"a,omitempty"` // amount selector
	F    int    `json:"f,omitempty"` // permille
	N    int    `json:"n,omitempty"` // redistribute outputs
	Keep bool   `json:"keep,omitempty"`
}

// C07ConcCase: a prepared wallet state and K workers issuing Fund/Release
// calls against it at the same time.
type C07ConcCase struct {
	Config       C07Config  `json:"config"`
	WalletBlocks int        `json:"wallet_blocks"`
	Pays         [][]int    `json:"pays"`
	PoolSpend    bool       `json:"pool_spend"`   // one confirmed output is spent in the pool beforehand
	PoolPayment  []int      `json:"pool_payment"` // an unconfirmed payment is pooled beforehand
	Workers      [][]ConcOp `json:"workers"`
	// MinerBlocks blocks are added to the manager by another goroutine while
	// the workers run; the wallet is not fed until they are done (it lags).
	MinerBlocks int  `json:"miner_blocks,omitempty"`
	MinerPool   bool `json:"miner_pool,omitempty"` // the blocks confirm the pool
}

func genC07Conc(t *rapid.T) C07ConcCase {
	c := C07ConcCase{Config: genConfig(t)}
	c.Config.ShortReservation = false
	c.Config.ReservationMs = rapid.SampledFrom([]int{0, 0, 100}).Draw(t, "conc-reservation")
	c.WalletBlocks = rapid.IntRange(1, 4).Draw(t, "wallet-blocks")
	np := rapid.IntRange(0, 3).Draw(t, "payments")
	for i := 0; i < np; i++ {
		c.Pays = append(c.Pays, genSizes(t, 12))
	}
	c.PoolSpend = rapid.Bool().Draw(t, "pool-spend")
	if rapid.Bool().Draw(t, "pool-payment") {
		c.PoolPayment = genSizes(t, 4)
	}
	if rapid.IntRange(0, 2).Draw(t, "miner") > 0 {
		c.MinerBlocks = rapid.IntRange(1, 3).Draw(t, "miner-blocks")
		c.MinerPool = rapid.Bool().Draw(t, "miner-pool")
	}
	k := rapid.IntRange(2, 8).Draw(t, "workers")
	for w := 0; w < k; w++ {
		n := rapid.IntRange(1, 8).Draw(t, "ops")
		var ops []ConcOp
		for i := 0; i < n; i++ {
			op := ConcOp{}
			switch r := rapid.IntRange(0, 11).Draw(t, "kind"); {
			case r < 7:
				op.K = "fund"
				op.V2 = rapid.Bool().Draw(t, "v2")
				op.U = rapid.IntRange(0, 3).Draw(t, "use-unconfirmed") == 0
				op.A = rapid.IntRange(0, 5).Draw(t, "amount-sel")
				op.F = rapid.IntRange(1, 999).Draw(t, "permille")
				op.Keep = rapid.Bool().Draw(t, "keep")
			case r < 8 && rapid.Bool().Draw(t, "split-instead"):
				op.K = "split"
			case r < 8:
				op.K = "redist"
				op.N = rapid.IntRange(1, 12).Draw(t, "outputs")
				op.F = rapid.IntRange(1, 999).Draw(t, "permille")
				op.Keep = rapid.Bool().Draw(t, "keep")
			case r < 10:
				op.K = "release"
			default:
				op.K = "read"
			}
			ops = append(ops, op)
		}
		c.Workers = append(c.Workers, ops)
	}
	return c
}

type concReq struct {
	worker    int
	kind      string // v1 v2 redist
	v1        types.Transaction
	v2        []types.V2Transaction
	amount    types.Currency
	useUnconf bool
	ids       []scID
	fundStart int64
	fundEnd   int64
	wall0     time.Time // clock before the funding call: the reservation lasts at least until wall0 + duration
	wall1     time.Time // clock after the funding call
	relStart  int64     // MaxInt64 while outstanding
	relEnd    int64     // stamped after ReleaseInputs returned (MaxInt64 until then)
}

func (r *concReq) release(w *wallet.SingleAddressWallet) {
	if r.kind == "v1" {
		w.ReleaseInputs([]types.Transaction{r.v1}, nil)
	} else {
		w.ReleaseInputs(nil, r.v2)
	}
}

func runC07Conc(c C07ConcCase, cs *kit.CaseStats) error {
	cfg := c.Config
	cfg.ShortReservation = false
	if cfg.ReservationMs != 0 {
		cfg.ReservationMs = 100
	}
	wd, err := newWorld(cfg, cs)
	if err != nil {
		return fmt.Errorf("INFRA: %w", err)
	}
	defer wd.close()
	// ---- sequential preparation
	if err := wd.opMine(Op{K: "mine", N: clampInt(c.WalletBlocks, 1, 4), B: 0}); err != nil {
		return err
	}
	if err := wd.opMine(Op{K: "mine", N: 3, B: 3}); err != nil {
		return err
	}
	for _, sizes := range c.Pays {
		if err := wd.opPay(Op{K: "pay", Sizes: sizes, V2: wd.cfg.Era == 2}); err != nil {
			return err
		}
	}
	if err := wd.opMine(Op{K: "mine", N: 1, B: 3}); err != nil {
		return err
	}
	if c.PoolSpend {
		v2 := !wd.v1Allowed()
		if err := wd.opFund(Op{K: "fund", A: 8, F: 500, V2: v2}, -1); err != nil {
			return err
		}
		if err := wd.opSubmit(Op{K: "submit"}, -1); err != nil {
			return err
		}
	}
	if len(c.PoolPayment) > 0 {
		if err := wd.opPay(Op{K: "pay", Sizes: c.PoolPayment, V2: wd.cfg.Era == 2}); err != nil {
			return err
		}
	}
	if err := wd.audit("prepared state"); err != nil {
		return err
	}
	// the reservations of the preparation stay in force; from here on the
	// chain and the pool do not change
	t0 := time.Now()
	base, err := wd.view(t0, t0)
	if err != nil {
		return err
	}
	sorted := sortedByValue(base.S)
	k := len(c.Workers)
	if k == 0 {
		return nil
	}
	cs.Classf("workers=%d", k)
	cs.Classf("era=%d", modInt(cfg.Era, 4))

	amountOf := func(op ConcOp) types.Currency {
		f := uint64(clampInt(op.F, 1, 999))
		var a types.Currency
		switch modInt(op.A, 6) {
		case 0:
			a = oneH
		case 1:
			a = fraction(base.sumS.Div64(uint64(k)), f, 1000)
		case 2:
			a = fraction(base.sumS, f, 1000)
		case 3:
			a = base.sumS
		case 4:
			if len(sorted) > 0 {
				a = sorted[0].SiacoinOutput.Value
			}
		default:
			if len(sorted) > 0 {
				a = sorted[len(sorted)-1].SiacoinOutput.Value
			}
		}
		if a.IsZero() {
			a = oneH
		}
		return a
	}

	// SplitUTXO(n, minAmount) such that, in the prepared state, exactly one more
	// output of at least a quarter of the largest one is wanted: the largest
	// output is split in two
	splitMin := oneH
	splitN := 2
	if len(sorted) > 0 {
		splitMin = sorted[0].SiacoinOutput.Value.Div64(4)
		if splitMin.IsZero() {
			splitMin = oneH
		}
		above := 0
		for _, u := range base.S {
			if u.SiacoinOutput.Value.Cmp(splitMin) >= 0 {
				above++
			}
		}
		for _, u := range base.Efree {
			if u.SiacoinOutput.Value.Cmp(splitMin) >= 0 {
				above++
			}
		}
		splitN = max(2, above+1)
	}
	var clock atomic.Int64
	var mu sync.Mutex
	var all []*concReq
	var failures []error
	fail := func(err error) {
		mu.Lock()
		failures = append(failures, err)
		mu.Unlock()
	}
	start := make(chan struct{})
	var wg sync.WaitGroup
	for wi, ops := range c.Workers {
		wg.Add(1)
		go func(wi int, ops []ConcOp) {
			defer wg.Done()
			defer func() {
				if r := recover(); r != nil {
					fail(fmt.Errorf("worker %d panicked: %v", wi, r))
				}
			}()
			var mine []*concReq
			<-start
			for _, op := range ops {
				switch op.K {
				case "fund":
					amount := amountOf(op)
					r := &concReq{worker: wi, amount: amount, useUnconf: op.U, relStart: math.MaxInt64, relEnd: math.MaxInt64}
					var err error
					if op.V2 {
						r.kind = "v2"
						txn := types.V2Transaction{SiacoinOutputs: []types.SiacoinOutput{{Address: wd.other, Value: amount}}}
						r.fundStart, r.wall0 = clock.Add(1), time.Now()
						_, _, err = wd.w.FundV2Transaction(&txn, amount, op.U)
						r.fundEnd, r.wall1 = clock.Add(1), time.Now()
						r.v2 = []types.V2Transaction{txn}
						for _, in := range txn.SiacoinInputs {
							r.ids = append(r.ids, in.Parent.ID)
						}
					} else {
						r.kind = "v1"
						txn := types.Transaction{SiacoinOutputs: []types.SiacoinOutput{{Address: wd.other, Value: amount}}}
						r.fundStart, r.wall0 = clock.Add(1), time.Now()
						_, err = wd.w.FundTransaction(&txn, amount, op.U)
						r.fundEnd, r.wall1 = clock.Add(1), time.Now()
						r.v1 = txn
						for _, in := range txn.SiacoinInputs {
							r.ids = append(r.ids, in.ParentID)
						}
					}
					if err != nil {
						if !errors.Is(err, wallet.ErrNotEnoughFunds) {
							fail(fmt.Errorf("worker %d: fund %v failed with %v", wi, amount, err))
						}
						continue
					}
					mu.Lock()
					all = append(all, r)
					mu.Unlock()
					if op.Keep {
						mine = append(mine, r)
					} else {
						r.relStart = clock.Add(1)
						r.release(wd.w)
						r.relEnd = clock.Add(1)
					}
				case "redist":
					n := clampInt(op.N, 1, 12)
					amount := fraction(base.sumS.Div64(uint64(k*(n+1))), uint64(clampInt(op.F, 1, 999)), 1000)
					if amount.IsZero() {
						amount = types.Siacoins(1)
					}
					r := &concReq{worker: wi, kind: "redist", amount: amount, relStart: math.MaxInt64, relEnd: math.MaxInt64}
					r.fundStart, r.wall0 = clock.Add(1), time.Now()
					_, txns, _, err := wd.w.Redistribute(n, amount, types.ZeroCurrency)
					r.fundEnd, r.wall1 = clock.Add(1), time.Now()
					if err != nil {
						if !errors.Is(err, wallet.ErrNotEnoughFunds) {
							fail(fmt.Errorf("worker %d: Redistribute(%d, %v) failed with %v", wi, n, amount, err))
						}
						continue
					} else if len(txns) == 0 {
						continue
					}
					r.v2 = txns
					for _, txn := range txns {
						for _, in := range txn.SiacoinInputs {
							r.ids = append(r.ids, in.Parent.ID)
						}
					}
					mu.Lock()
					all = append(all, r)
					mu.Unlock()
					if op.Keep {
						mine = append(mine, r)
					} else {
						r.relStart = clock.Add(1)
						r.release(wd.w)
						r.relEnd = clock.Add(1)
					}
				case "split":
					r := &concReq{worker: wi, kind: "split", relStart: math.MaxInt64, relEnd: math.MaxInt64}
					r.fundStart, r.wall0 = clock.Add(1), time.Now()
					txn, err := wd.w.SplitUTXO(splitN, splitMin)
					r.fundEnd, r.wall1 = clock.Add(1), time.Now()
					if err != nil || len(txn.SiacoinInputs) == 0 {
						continue // out of its domain for this state, nothing to do, or refused by the pool
					}
					r.v2 = []types.V2Transaction{txn}
					for _, in := range txn.SiacoinInputs {
						r.ids = append(r.ids, in.Parent.ID)
					}
					mu.Lock()
					all = append(all, r)
					mu.Unlock()
				case "release":
					if len(mine) > 0 {
						r := mine[0]
						mine = mine[1:]
						r.relStart = clock.Add(1)
						r.release(wd.w)
						r.relEnd = clock.Add(1)
					}
				default:
					if _, err := wd.w.SpendableOutputs(); err != nil {
						fail(err)
					}
					if _, err := wd.w.Balance(); err != nil {
						fail(err)
					}
				}
			}
		}(wi, ops)
	}
	if c.MinerBlocks > 0 {
		cs.Class("chain-moves-during-the-calls")
		wg.Add(1)
		go func() {
			defer wg.Done()
			defer func() {
				if r := recover(); r != nil {
					fail(fmt.Errorf("miner panicked: %v", r))
				}
			}()
			<-start
			for i := 0; i < clampInt(c.MinerBlocks, 1, 3); i++ {
				b := wd.mineOn(wd.cm.TipState(), wd.paddr, c.MinerPool, 0)
				if err := wd.cm.AddBlocks([]types.Block{b}); err != nil {
					fail(fmt.Errorf("INFRA: concurrent block rejected: %w", err))
					return
				}
			}
		}()
	}
	close(start)
	done := make(chan struct{})
	go func() { wg.Wait(); close(done) }()
	select {
	case <-done:
	case <-time.After(2 * time.Minute):
		cs.Inconclusive("workers-did-not-finish-in-2min")
		return nil
	}
	if len(failures) > 0 {
		return failures[0]
	}

	// ---- per-request oracle. The wallet's store did not change during the
	// calls. The pool may have (blocks confirming it): an input counts as
	// pool-spent only if it was so before and after, an unconfirmed output is
	// admissible if it was one before or after.
	t1 := time.Now()
	if err := wd.syncOthers(); err != nil {
		return err
	}
	end, err := wd.view(t0, t1) // reservations of the preparation are in force over the whole window
	if err != nil {
		return err
	}
	if end.snap.tip != base.snap.tip {
		return fmt.Errorf("INFRA: the wallet store moved during the concurrent phase")
	}
	v := end
	{
		v.snap.P = map[scID]bool{}
		for id := range end.snap.P {
			if base.snap.P[id] {
				v.snap.P[id] = true
			}
		}
		v.snap.E = map[scID]types.SiacoinElement{}
		for id, e := range base.snap.E {
			v.snap.E[id] = e
		}
		for id, e := range end.snap.E {
			v.snap.E[id] = e
		}
		// outputs of split transactions pooled (and possibly confirmed again by
		// the miner) in the meantime were unconfirmed outputs at some point
		for _, r := range all {
			if r.kind == "split" {
				for i := range r.v2[0].SiacoinOutputs {
					e := r.v2[0].EphemeralSiacoinOutput(i)
					v.snap.E[e.ID] = e
				}
			}
		}
	}
	for _, r := range all {
		where := fmt.Sprintf("worker %d %s request (amount %v)", r.worker, r.kind, r.amount)
		switch r.kind {
		case "v1", "v2":
			sum, nu, err := wd.checkSelected(v, r.ids, r.useUnconf, t0, t1, map[scID]bool{})
			if err != nil {
				return fmt.Errorf("%s: %w", where, err)
			}
			if nu > 0 {
				cs.Class("fund=uses-unconfirmed-output")
			}
			var outs []types.SiacoinOutput
			if r.kind == "v1" {
				outs = r.v1.SiacoinOutputs[1:]
			} else {
				outs = r.v2[0].SiacoinOutputs[1:]
			}
			var change types.Currency
			for _, o := range outs {
				if o.Address != wd.waddr {
					return fmt.Errorf("%s: change pays %v", where, o.Address)
				}
				change = change.Add(o.Value)
			}
			if !sum.Equals(r.amount.Add(change)) {
				return fmt.Errorf("%s: Σ inputs %v != amount %v + change %v", where, sum, r.amount, change)
			}
		case "split":
			// the call pooled the transaction itself: its own input is spent in
			// the pool by now, by this very transaction
			if _, ok := wd.cm.V2PoolTransaction(r.v2[0].ID()); !ok && c.MinerBlocks == 0 {
				return fmt.Errorf("%s: the returned split transaction is not in the pool", where)
			}
			vv := v
			vv.snap.P = map[scID]bool{}
			for id := range v.snap.P {
				if id != r.ids[0] {
					vv.snap.P[id] = true
				}
			}
			sum, _, err := wd.checkSelected(vv, r.ids, true, t0, t1, map[scID]bool{})
			if err != nil {
				return fmt.Errorf("%s: %w", where, err)
			}
			var outSum types.Currency
			for _, o := range r.v2[0].SiacoinOutputs {
				if o.Address != wd.waddr {
					return fmt.Errorf("%s: output pays %v", where, o.Address)
				}
				outSum = outSum.Add(o.Value)
			}
			if !sum.Equals(outSum.Add(r.v2[0].MinerFee)) {
				return fmt.Errorf("%s: input %v != Σ outputs %v + fee %v", where, sum, outSum, r.v2[0].MinerFee)
			}
			cs.Class("split=ok")
			// SplitUTXO reserves its input like a funding call does
			wd.reserve(r.ids, r.wall0, r.wall1, -1)
		default:
			seen := map[scID]bool{}
			for ti, txn := range r.v2 {
				var ids []scID
				for _, in := range txn.SiacoinInputs {
					ids = append(ids, in.Parent.ID)
				}
				sum, _, err := wd.checkSelected(v, ids, false, t0, t1, seen)
				if err != nil {
					return fmt.Errorf("%s txn %d: %w", where, ti, err)
				}
				var outSum types.Currency
				for _, o := range txn.SiacoinOutputs {
					outSum = outSum.Add(o.Value)
				}
				if !sum.Equals(outSum.Add(txn.MinerFee)) {
					return fmt.Errorf("%s txn %d: Σ inputs %v != Σ outputs %v + fee %v", where, ti, sum, outSum, txn.MinerFee)
				}
			}
		}
	}
	// ---- no two requests that were outstanding at the same time share an input
	owner := map[scID][]*concReq{}
	for _, r := range all {
		for _, id := range r.ids {
			owner[id] = append(owner[id], r)
		}
	}
	shared := false
	for id, rs := range owner {
		for i := 0; i < len(rs); i++ {
			for j := 0; j < len(rs); j++ {
				if i == j {
					continue
				}
				a, b := rs[i], rs[j]
				shared = true
				// With 3 h reservations two results may share an output only if one
				// of them was released before the other was selected. If neither
				// release had begun when the other's call returned, whichever call
				// selected second did so while the first result was held (selection
				// and reservation / pooling are one atomic step of the wallet).
				if !cfg.short() && i < j && a.relStart > b.fundEnd && b.relStart > a.fundEnd {
					return fmt.Errorf("output %v is an input of worker %d's %s result (call [%d,%d], released at %d) and of worker %d's %s result (call [%d,%d], released at %d): neither was released before the other was selected", id, a.worker, a.kind, a.fundStart, a.fundEnd, a.relStart, b.worker, b.kind, b.fundStart, b.fundEnd, b.relStart)
				}
				// a was certainly outstanding during the whole of b's call. With
				// short reservations a third result c that held the output earlier
				// (and ran out) may be released late: ReleaseInputs works by output
				// id and then drops a's reservation too - the integrator's doing.
				thirdRelease := false
				for _, c := range rs {
					// (the release took effect somewhere between its two stamps)
					if c != a && c.relStart != math.MaxInt64 && c.relEnd > a.fundStart && c.relStart < b.fundEnd {
						thirdRelease = true
					}
				}
				if a.fundEnd < b.fundStart && b.fundEnd < a.relStart && b.wall1.Before(a.wall0.Add(wd.dur)) && !thirdRelease {
					return fmt.Errorf("output %v was selected by worker %d (%s, call [%d,%d]) while worker %d's %s request (funded at %d, released at %d) held it", id, b.worker, b.kind, b.fundStart, b.fundEnd, a.worker, a.kind, a.fundEnd, a.relStart)
				}
			}
		}
	}
	if shared {
		cs.Class("outputs-reused-after-release")
	}
	// ---- quiescent agreement (with the 100 ms reservation: once every
	// reservation has certainly run out, kept requests count as released)
	if cfg.short() {
		cs.Class("reservation=100ms")
		time.Sleep(wd.dur + 5*time.Millisecond)
		for _, r := range all {
			if r.relStart == math.MaxInt64 {
				r.relStart = math.MaxInt64 - 1
			}
		}
		t0 = time.Now()
		if end, err = wd.view(t0, t0); err != nil {
			return err
		}
	}
	want := map[scID]types.SiacoinElement{}
	for id, u := range end.S {
		want[id] = u
	}
	kept := 0
	for _, r := range all {
		if r.relStart == math.MaxInt64 {
			kept++
			for _, id := range r.ids {
				delete(want, id)
			}
		}
	}
	cs.Classf("requests=%d", min(len(all)/5*5, 30))
	if kept > 0 {
		cs.Class("kept-requests")
	}
	so, soSum, err := wd.spendable()
	if err != nil {
		return err
	}
	if d := diffSets(so, want, end.snap, wd, t0, time.Now()); d != "" {
		return fmt.Errorf("after the workers finished (%d requests, %d kept) SpendableOutputs disagrees with the spendable set minus kept inputs: %s", len(all), kept, d)
	}
	bal, err := wd.w.Balance()
	if err != nil {
		return err
	}
	if !wd.lagging() && !bal.Spendable.Equals(soSum) {
		return fmt.Errorf("after the workers finished Balance().Spendable = %v, Σ SpendableOutputs = %v", bal.Spendable, soSum)
	}
	// every kept, signed result must be accepted by the pool: nothing it could
	// conflict with exists (kept results are pairwise disjoint, released ones
	// were never submitted). Decidable when the chain did not move.
	if c.MinerBlocks == 0 && !cfg.short() {
		for _, r := range all {
			if r.relStart != math.MaxInt64 || r.kind == "split" {
				continue
			}
			unconfirmed := false
			for _, id := range r.ids {
				if _, ok := end.snap.U[id]; !ok {
					unconfirmed = true
				}
			}
			if unconfirmed {
				continue
			}
			var err error
			switch {
			case r.kind == "v1" && wd.v1Allowed():
				ts := make([]types.Hash256, len(r.ids))
				for i, id := range r.ids {
					ts[i] = types.Hash256(id)
				}
				wd.w.SignTransaction(&r.v1, ts, types.CoveredFields{WholeTransaction: true})
				_, err = wd.cm.AddPoolTransactions([]types.Transaction{r.v1})
			case r.kind != "v1" && wd.v2Allowed():
				for i := range r.v2 {
					idx := make([]int, len(r.v2[i].SiacoinInputs))
					for k := range idx {
						idx[k] = k
					}
					wd.w.SignV2Inputs(&r.v2[i], idx)
				}
				_, err = wd.cm.AddV2PoolTransactions(end.snap.tip, r.v2)
			default:
				continue
			}
			if err != nil {
				return fmt.Errorf("worker %d's kept %s result (amount %v) was rejected by the pool: %v", r.worker, r.kind, r.amount, err)
			}
			cs.Class("kept-result-accepted-by-the-pool")
			r.relStart = math.MaxInt64 - 2 // submitted: not to be released
		}
	}
	for _, r := range all {
		if r.relStart == math.MaxInt64 && r.kind != "split" {
			r.release(wd.w)
		}
	}
	if err := wd.audit("after releasing every kept request"); err != nil {
		return err
	}
	so, _, err = wd.spendable()
	if err != nil {
		return err
	}
	pooled := false
	for _, r := range all {
		pooled = pooled || r.relStart == math.MaxInt64-2 || r.kind == "split"
	}
	if d := diffSets(so, end.S, end.snap, wd, t0, time.Now()); d != "" && !pooled {
		return fmt.Errorf("after releasing every request SpendableOutputs is not back to the prepared state: %s", d)
	}
	if wd.lagging() {
		// the wallet catches up with the blocks added meanwhile: full agreement
		if err := wd.syncWallet(); err != nil {
			return err
		}
		if err := wd.audit("after the wallet caught up with the concurrently added blocks"); err != nil {
			return err
		}
	}
	if len(all) >= 4 && k >= 3 {
		cs.NonTrivial()
	}
	return nil
}

var c07ConcProp = kit.Prop[C07ConcCase]{
	ID:   "C07",
	Rule: "concurrent family: a prepared wallet (mined and paid outputs, optionally one pool-spent output and one unconfirmed payment) and 2..8 goroutines issuing FundTransaction / FundV2Transaction / Redistribute / SplitUTXO / ReleaseInputs / Balance / SpendableOutputs at once (3 h or 100 ms reservations; optionally a miner goroutine adds blocks). Per request the input oracle and conservation; two results sharing an output: with 3 h reservations one must have been released before the other was selected (logical clock stamped around every call: violation when neither release had begun before the other call returned); kept signed results must be accepted by the pool when the chain did not move; at quiescence SpendableOutputs = prepared spendable set minus kept inputs = Balance().Spendable, and after releasing everything the full agreement audit. Non-trivial = ≥ 3 workers and ≥ 4 successful requests.",
	Assumptions: []string{
		"goroutine interleavings are whatever the Go runtime produces; the sequential machine is the model-based oracle, this family stresses the single mutex (with -race in the thorough tier)",
	},
	Gen: genC07Conc,
	Run: runC07Conc,
}

func TestC07Concurrent(t *testing.T) { c07ConcProp.Main(t) }
