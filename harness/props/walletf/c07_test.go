// Package pwalletf holds the C07 check: funding by wallet.SingleAddressWallet
// never double-allocates, conserves value and yields valid spends.
package pwalletf

import (
	"crypto/sha256"
	"errors"
	"fmt"
	"os"
	"sort"
	"strings"
	"testing"
	"time"

	"go.sia.tech/core/consensus"
	"go.sia.tech/core/types"
	"go.sia.tech/coreutils/chain"
	"go.sia.tech/coreutils/testutil"
	"go.sia.tech/coreutils/wallet"
	"go.uber.org/zap"
	"go.uber.org/zap/zaptest/observer"
	"pgregory.net/rapid"

	"verif/kit"
	"verif/refl"
)

// ---------------------------------------------------------------- case

// C07Config is the per-case configuration: public wallet options + network.
type C07Config struct {
	// Era: 0 = v1 only (v2 never allowed), 1 = overlap (v2 allowed from height
	// 1, never required), 2 = v2 only (allowed and required from height 1),
	// 3 = crossing (allowed from 6, required from 10).
	Era                int  `json:"era"`
	Maturity           int  `json:"maturity"` // 1..3
	DefragThreshold    int  `json:"defrag_threshold"`
	MaxInputsForDefrag int  `json:"max_inputs_for_defrag"`
	MaxDefragUTXOs     int  `json:"max_defrag_utxos"`
	ShortReservation   bool `json:"short_reservation"` // 50 ms instead of 3 h
	Genesis            bool `json:"genesis"`           // the wallet key owns six genesis outputs
	// ReservationMs, if > 0, is the reservation duration in milliseconds (25,
	// 50 or 100); 0 means 3 h unless ShortReservation (= 50 ms) is set.
	ReservationMs int `json:"reservation_ms,omitempty"`
	// WalletActor: 0 = a key of its own (or actor 2 if Genesis), 1 = actor 2
	// (owns genesis siacoins and siafunds), 2 = actor 0, whose address is also
	// the network's foundation address (receives the subsidies).
	WalletActor int `json:"wallet_actor,omitempty"`
	// Order selects the (deterministic) order in which the store lists the
	// unspent outputs; the reference store lists them in map order.
	Order int `json:"order,omitempty"`
}

// Op is one step of the machine. All fields are small integers that are
// resolved against the state that exists when the step executes.
type Op struct {
	K string `json:"k"` // mine pay fund release submit redist split reorg restart expire sync topup rebroadcast
	// N: count (blocks, outputs, depth, request index, split parts)
	N int `json:"n,omitempty"`
	// A: amount selector, F: permille / secondary selector
	A int `json:"a,omitempty"`
	F int `json:"f,omitempty"`
	// B: mode selector (miner target, submission path, fee selector, fresh manager)
	B int `json:"b,omitempty"`
	// U: useUnconfirmed; V2: v2 flavour of fund / pay
	U  bool `json:"u,omitempty"`
	V2 bool `json:"v2,omitempty"`
	// Now: (fund) sign and submit the request right away
	Now bool `json:"now,omitempty"`
	// Lag: (mine, reorg) the wallet is not fed the new blocks; it stays at its
	// own tip until a later non-lagging chain op or a "sync" op
	Lag bool `json:"lag,omitempty"`
	// Extra: (mine) transactions of actor 1 that the kit's builder adds to the
	// first mined block next to the pool: 0 direct payment to the wallet, 1
	// siafund spend with the claim paid to the wallet, 2 contract with the wallet
	// as the other party (payouts to the wallet), 3 operation on an existing
	// contract (revision / proof / renewal / expiry)
	Extra []int `json:"extra,omitempty"`
	// Sizes: payment output sizes (indices into paySizes)
	Sizes []int `json:"sizes,omitempty"`
}

// C07Case is a configuration and an operation sequence.
type C07Case struct {
	Config C07Config `json:"config"`
	Ops    []Op      `json:"ops"`
}

var paySizes = []types.Currency{
	types.NewCurrency64(1), types.NewCurrency64(7), types.Siacoins(1), types.Siacoins(13),
	types.Siacoins(100), types.Siacoins(999), types.Siacoins(5000),
}

const shortReservation = 50 * time.Millisecond

// reservation returns the configured reservation duration.
func (c C07Config) reservation() time.Duration {
	switch {
	case c.ReservationMs > 0:
		return time.Duration(clampInt(c.ReservationMs, 5, 1000)) * time.Millisecond
	case c.ShortReservation:
		return shortReservation
	}
	return 3 * time.Hour
}

func (c C07Config) short() bool { return c.reservation() < time.Hour }

func genConfig(t *rapid.T) C07Config {
	c := C07Config{
		Era:      rapid.IntRange(0, 3).Draw(t, "era"),
		Maturity: rapid.IntRange(1, 3).Draw(t, "maturity"),
		Genesis:  rapid.IntRange(0, 2).Draw(t, "genesis") > 0,
		Order:    rapid.IntRange(0, 3).Draw(t, "store-order"),
	}
	if rapid.IntRange(0, 4).Draw(t, "default-defrag") == 0 {
		c.DefragThreshold, c.MaxInputsForDefrag, c.MaxDefragUTXOs = 30, 30, 10
	} else {
		c.DefragThreshold = rapid.IntRange(0, 40).Draw(t, "defrag-threshold")
		c.MaxInputsForDefrag = rapid.IntRange(1, 100).Draw(t, "max-inputs-for-defrag")
		c.MaxDefragUTXOs = rapid.IntRange(0, 20).Draw(t, "max-defrag-utxos")
	}
	switch rapid.IntRange(0, 7).Draw(t, "reservation") {
	case 0:
		c.ReservationMs = 25
	case 1:
		c.ShortReservation = true // 50 ms
	case 2:
		c.ReservationMs = 100
	}
	c.WalletActor = rapid.IntRange(0, 2).Draw(t, "wallet-actor")
	if c.WalletActor > 0 {
		c.Genesis = true
	}
	return c
}

func genSizes(t *rapid.T, maxN int) []int {
	return rapid.SliceOfN(rapid.IntRange(0, len(paySizes)-1), 1, maxN).Draw(t, "sizes")
}

func genOp(t *rapid.T, cfg C07Config) Op {
	// weights
	type wk struct {
		k string
		w int
	}
	kinds := []wk{{"mine", 4}, {"pay", 4}, {"fund", 11}, {"release", 2}, {"submit", 6}, {"redist", 2}, {"split", 2}, {"reorg", 1}, {"restart", 2}, {"sync", 2}, {"topup", 2}, {"rebroadcast", 2}}
	if cfg.short() {
		kinds = append(kinds, wk{"expire", 2})
	}
	total := 0
	for _, k := range kinds {
		total += k.w
	}
	r := rapid.IntRange(0, total-1).Draw(t, "kind")
	op := Op{}
	for _, k := range kinds {
		if r < k.w {
			op.K = k.k
			break
		}
		r -= k.w
	}
	v2Likely := cfg.Era == 2 || (cfg.Era != 0 && rapid.Bool().Draw(t, "v2"))
	if rapid.IntRange(0, 9).Draw(t, "flip-version") == 0 {
		v2Likely = !v2Likely
	}
	switch op.K {
	case "mine":
		op.N = rapid.IntRange(1, 3).Draw(t, "blocks")
		op.B = rapid.IntRange(0, 5).Draw(t, "target") // 0,1,2: wallet; 3,4: payer; 5: payer, pool left alone
		op.Lag = rapid.IntRange(0, 3).Draw(t, "lag") == 0
		if cfg.WalletActor > 0 && rapid.IntRange(0, 2).Draw(t, "extras") == 0 {
			op.Extra = rapid.SliceOfN(rapid.IntRange(0, 3), 1, 3).Draw(t, "extra")
			op.V2 = v2Likely
		}
	case "pay":
		op.Sizes = genSizes(t, 12)
		op.V2 = v2Likely
		op.B = rapid.IntRange(0, 1).Draw(t, "pay-fee") // 1: pays a miner fee (the manager re-pools only fee-paying transactions of a reverted block)
	case "fund":
		// zero, 1 H, fraction, exactly spendable, +1, exactly spendable+unconfirmed, +1, value of one utxo, fraction of the largest
		op.A = rapid.SampledFrom([]int{0, 1, 1, 2, 2, 2, 2, 3, 3, 4, 5, 5, 6, 7, 7, 8, 8, 8, 8}).Draw(t, "amount-sel")
		op.F = rapid.IntRange(1, 999).Draw(t, "permille")
		op.N = rapid.IntRange(0, 5).Draw(t, "rank")
		op.U = rapid.Bool().Draw(t, "use-unconfirmed")
		op.V2 = v2Likely
		if rapid.IntRange(0, 7).Draw(t, "fake") == 0 {
			op.B = rapid.IntRange(1, 3).Draw(t, "fake-inputs")
		} else {
			op.Now = rapid.IntRange(0, 2).Draw(t, "submit-now") == 0
		}
	case "release":
		op.N = rapid.IntRange(0, 7).Draw(t, "request")
	case "topup":
		op.N = rapid.IntRange(0, 7).Draw(t, "request")
		op.F = rapid.IntRange(1, 999).Draw(t, "permille")
		op.U = rapid.IntRange(0, 3).Draw(t, "use-unconfirmed") == 0
	case "submit":
		op.N = rapid.IntRange(0, 7).Draw(t, "request")
		op.B = rapid.SampledFrom([]int{0, 1, 2, 2, 2}).Draw(t, "path") // 2: the wallet's own broadcast helper
	case "redist":
		op.N = rapid.IntRange(1, 15).Draw(t, "outputs")
		op.A = rapid.IntRange(0, 5).Draw(t, "amount-sel")
		op.F = rapid.IntRange(0, 5).Draw(t, "rank")
		op.B = rapid.IntRange(0, 2).Draw(t, "fee-sel")
		op.Now = rapid.IntRange(0, 2).Draw(t, "submit-now") == 0
	case "split":
		op.N = rapid.IntRange(0, 13).Draw(t, "parts")  // 0 and 1 are outside SplitUTXO's domain (error path)
		op.A = rapid.IntRange(0, 5).Draw(t, "min-sel") // 5: zero minAmount (error path)
		op.B = rapid.IntRange(0, 3).Draw(t, "raw-n")
	case "reorg":
		op.N = rapid.IntRange(1, 4).Draw(t, "depth")
		op.B = rapid.IntRange(0, 1).Draw(t, "fork-miner")
		op.Lag = rapid.IntRange(0, 3).Draw(t, "lag") == 0
	case "restart":
		op.B = rapid.IntRange(0, 1).Draw(t, "fresh-manager")
	case "sync":
		op.N = rapid.SampledFrom([]int{0, 0, 1, 2, 3}).Draw(t, "sync-chunk") // 0: up to the tip
	}
	return op
}

func genC07(t *rapid.T) C07Case {
	c := C07Case{Config: genConfig(t)}
	// funding prefix: most cases start with coins of several shapes
	if rapid.IntRange(0, 9).Draw(t, "prefix") > 0 {
		c.Ops = append(c.Ops, Op{K: "mine", N: rapid.IntRange(1, 3).Draw(t, "pre-wallet-blocks"), B: 0})
		c.Ops = append(c.Ops, Op{K: "mine", N: rapid.IntRange(1, 3).Draw(t, "pre-payer-blocks"), B: 3})
		if rapid.Bool().Draw(t, "pre-pay") {
			c.Ops = append(c.Ops, Op{K: "pay", Sizes: genSizes(t, 12), V2: c.Config.Era == 2 || (c.Config.Era == 1 && rapid.Bool().Draw(t, "pre-pay-v2"))})
			if rapid.Bool().Draw(t, "pre-pay-2") {
				c.Ops = append(c.Ops, Op{K: "pay", Sizes: genSizes(t, 12), V2: c.Config.Era == 2})
			}
			c.Ops = append(c.Ops, Op{K: "mine", N: 1, B: 3})
		}
	}
	maxOps := 25
	if kit.Thorough() {
		maxOps = 60
	}
	n := rapid.IntRange(1, maxOps-len(c.Ops)).Draw(t, "n-ops")
	for i := 0; i < n; i++ {
		c.Ops = append(c.Ops, genOp(t, c.Config))
	}
	return c
}

// ---------------------------------------------------------------- world

type scID = types.SiacoinOutputID

// resv is the model's knowledge of one reservation: the wallet computed the
// expiry as time.Now()+duration at some instant between the harness' clock
// readings before and after the call, so the real expiry lies in [lo, hi].
type resv struct {
	lo, hi time.Time
	req    int
}

// bset is a transaction set the wallet broadcast through its own helper.
type bset struct {
	basis     types.ChainIndex
	txns      []types.V2Transaction
	ephemeral bool // some input was an unconfirmed output
	// retired: a re-broadcast round removed the set from the store while its
	// transactions were not in the pool (confirmed, or no longer valid). The
	// store contract says sets are re-broadcast "until all transactions are gone
	// from the transaction pool", so this is the documented end of a set's life -
	// also if a later reorg un-confirms the transaction again.
	retired bool
}

// storedIn reports whether some stored set carries the set's last transaction.
func (b bset) storedIn(sets []wallet.BroadcastedSet) bool {
	last := b.txns[len(b.txns)-1].ID()
	for _, set := range sets {
		for _, t := range set.Transactions {
			if t.ID() == last {
				return true
			}
		}
	}
	return false
}

func newBset(basis types.ChainIndex, txns []types.V2Transaction) bset {
	b := bset{basis: basis}
	for _, t := range txns {
		b.txns = append(b.txns, t.DeepCopy())
		for _, in := range t.SiacoinInputs {
			if in.Parent.StateElement.LeafIndex == types.UnassignedLeafIndex {
				b.ephemeral = true
			}
		}
	}
	return b
}

// live reports whether every input of the set's transactions is unspent at the
// manager's tip according to the reference store (so none of them is confirmed
// and nothing conflicting is).
func (b bset) live(chainU map[scID]types.SiacoinElement) bool {
	for _, t := range b.txns {
		for _, in := range t.SiacoinInputs {
			if _, ok := chainU[in.Parent.ID]; !ok {
				return false
			}
		}
	}
	return true
}

func (b bset) inPool(cm *chain.Manager) bool {
	for _, t := range b.txns {
		if _, ok := cm.V2PoolTransaction(t.ID()); !ok {
			return false
		}
	}
	return true
}

type request struct {
	id       int
	kind     string // v1 v2 redist
	v1       types.Transaction
	toSignV1 []types.Hash256
	v2       []types.V2Transaction
	toSignV2 [][]int
	basis    types.ChainIndex
	ids      []scID
	state    int  // 0 outstanding, 1 released, 2 submitted, 3 dead
	noSubmit bool // carries fake inputs, can only be released
	unconf   bool // had an unconfirmed input when it was funded
	// vals: the value every input had in the wallet's view when it was selected
	vals map[scID]types.Currency
}

// noteValues records the values of the given inputs as the view has them.
func (r *request) noteValues(v view, ids []scID) {
	if r.vals == nil {
		r.vals = map[scID]types.Currency{}
	}
	for _, id := range ids {
		if u, ok := v.snap.U[id]; ok {
			r.vals[id] = u.SiacoinOutput.Value
		} else if e, ok := v.snap.E[id]; ok {
			r.vals[id] = e.SiacoinOutput.Value
		}
	}
}

type world struct {
	cfg     C07Config
	net     *consensus.Network
	genesis types.Block
	db      *chain.MemDB
	dbs     *chain.DBStore
	cm      *chain.Manager
	syncer  *testutil.MockSyncer

	wkey   types.PrivateKey
	waddr  types.Address
	wactor int // index of the wallet's key among kit.Actors, -1 if it is none of them
	// ledgers: reference ledger of every block the harness built (needed to
	// let the kit's transaction builder add contracts, siafund spends and direct
	// payments of actor 1 to the mined blocks)
	ledgers map[types.BlockID]*refl.Ledger
	ws      *testutil.EphemeralWalletStore
	w       *wallet.SingleAddressWallet

	// ts/tw: a second store for the wallet's address that is fed every chain
	// change at once; it is the reference for "really unspent at the chain's
	// tip" while the wallet under test lags behind
	ts *testutil.EphemeralWalletStore
	tw *wallet.SingleAddressWallet

	pkey  types.PrivateKey
	paddr types.Address
	ps    *testutil.EphemeralWalletStore
	p     *wallet.SingleAddressWallet

	other types.Address

	// bcast: every set the wallet broadcast itself (BroadcastV2TransactionSet
	// or SplitUTXO), with the basis its proofs really belong to
	bcast []bset

	dur   time.Duration
	res   map[scID]resv
	reqs  []*request
	forks int
	pays  int
	cs    *kit.CaseStats

	feat struct{ reserved, poolSpent, immature, unconfirmed, all4, defragRan bool }
}

// orderedStore is the reference store with a deterministic listing order, so
// that the wallet's tie-breaks among equal-valued outputs (all block rewards
// of the test network are equal) do not depend on Go's map iteration order and
// a saved case replays the same way.
type orderedStore struct {
	*testutil.EphemeralWalletStore
	order int
}

func (s orderedStore) UnspentSiacoinElements() (types.ChainIndex, []types.SiacoinElement, error) {
	tip, utxos, err := s.EphemeralWalletStore.UnspentSiacoinElements()
	key := func(id scID) string {
		b := id
		if s.order&2 != 0 {
			for i, j := 0, len(b)-1; i < j; i, j = i+1, j-1 {
				b[i], b[j] = b[j], b[i]
			}
		}
		return string(b[:])
	}
	sort.Slice(utxos, func(i, j int) bool {
		if s.order&1 != 0 {
			return key(utxos[i].ID) > key(utxos[j].ID)
		}
		return key(utxos[i].ID) < key(utxos[j].ID)
	})
	return tip, utxos, err
}

func c07WalletKey() types.PrivateKey {
	seed := sha256.Sum256([]byte("verif-c07-wallet"))
	return types.NewPrivateKeyFromSeed(seed[:])
}

func (c C07Config) netSpec() kit.NetSpec {
	const far = 1 << 20
	ns := kit.NetSpec{Maturity: c.Maturity}
	switch ((c.Era % 4) + 4) % 4 {
	case 0:
		ns.Allow, ns.ReqOff, ns.CutOff = far, 10, 10
	case 1:
		ns.Allow, ns.ReqOff, ns.CutOff = 1, far, 10
	case 2:
		ns.Allow, ns.ReqOff, ns.CutOff = 1, 0, 0
	default:
		ns.Allow, ns.ReqOff, ns.CutOff = 6, 4, 4
	}
	return ns
}

func (c C07Config) options() []wallet.Option {
	d := c.reservation()
	return []wallet.Option{
		wallet.WithDefragThreshold(c.DefragThreshold),
		wallet.WithMaxInputsForDefrag(c.MaxInputsForDefrag),
		wallet.WithMaxDefragUTXOs(c.MaxDefragUTXOs),
		wallet.WithReservationDuration(d),
		// keep the background re-broadcast loop quiet for the life of a case
		wallet.WithDebounceInterval(time.Hour),
	}
}

func (c C07Config) nonDefaultDefrag() bool {
	return c.DefragThreshold != 30 || c.MaxInputsForDefrag != 30 || c.MaxDefragUTXOs != 10
}

func newWorld(cfg C07Config, cs *kit.CaseStats) (*world, error) {
	wd := &world{cfg: cfg, cs: cs, res: map[scID]resv{}, syncer: &testutil.MockSyncer{}}
	wd.net, wd.genesis = cfg.netSpec().Network()
	wd.db = chain.NewMemDB()
	dbs, tipState, err := chain.NewDBStore(wd.db, wd.net, wd.genesis, nil)
	if err != nil {
		return nil, err
	}
	wd.dbs = dbs
	wd.cm = chain.NewManager(dbs, tipState)
	gl := refl.Genesis(wd.net, wd.genesis)
	wd.ledgers = map[types.BlockID]*refl.Ledger{gl.Index().ID: gl}
	switch {
	case cfg.WalletActor == 2:
		wd.wkey, wd.wactor = kit.Actors[0].SK, 0
	case cfg.WalletActor == 1 || cfg.Genesis:
		wd.wkey, wd.wactor = kit.Actors[2].SK, 2
	default:
		wd.wkey, wd.wactor = c07WalletKey(), -1
	}
	wd.waddr = types.StandardUnlockHash(wd.wkey.PublicKey())
	wd.pkey = kit.Actors[3].SK
	wd.paddr = kit.Actors[3].Addr
	wd.other = kit.Actors[1].Addr
	wd.dur = cfg.reservation()
	wd.ws = testutil.NewEphemeralWalletStore()
	wd.ps = testutil.NewEphemeralWalletStore()
	wd.ts = testutil.NewEphemeralWalletStore()
	if err := wd.openWallets(); err != nil {
		return nil, err
	}
	return wd, wd.sync()
}

func (wd *world) openWallets() (err error) {
	wd.w, err = wallet.NewSingleAddressWallet(wd.wkey, wd.cm, orderedStore{wd.ws, wd.cfg.Order}, wd.syncer, wd.cfg.options()...)
	if err != nil {
		return err
	}
	wd.p, err = wallet.NewSingleAddressWallet(wd.pkey, wd.cm, orderedStore{wd.ps, 0}, wd.syncer, wallet.WithDebounceInterval(time.Hour))
	if err != nil {
		return err
	}
	wd.tw, err = wallet.NewSingleAddressWallet(wd.wkey, wd.cm, orderedStore{wd.ts, 0}, wd.syncer, wallet.WithDebounceInterval(time.Hour))
	return err
}

func (wd *world) close() {
	if wd.w != nil {
		wd.w.Close()
	}
	if wd.p != nil {
		wd.p.Close()
	}
	if wd.tw != nil {
		wd.tw.Close()
	}
}

func syncOne(cm *chain.Manager, store *testutil.EphemeralWalletStore, w *wallet.SingleAddressWallet) error {
	for i := 0; i < 1000; i++ {
		tip, err := store.Tip()
		if err != nil {
			return err
		} else if tip == cm.Tip() {
			return nil
		}
		reverted, applied, err := cm.UpdatesSince(tip, 1000)
		if err != nil {
			return fmt.Errorf("UpdatesSince(%v): %w", tip, err)
		}
		if err := store.UpdateChainState(func(tx wallet.UpdateTx) error {
			return w.UpdateChainState(tx, reverted, applied)
		}); err != nil {
			return err
		}
	}
	return errors.New("wallet store does not reach the manager's tip")
}

// syncOthers feeds the payer's store and the reference store of the wallet's
// address; they never lag.
func (wd *world) syncOthers() error {
	if err := syncOne(wd.cm, wd.ps, wd.p); err != nil {
		return fmt.Errorf("INFRA: payer sync: %w", err)
	}
	if err := syncOne(wd.cm, wd.ts, wd.tw); err != nil {
		return fmt.Errorf("INFRA: reference store sync: %w", err)
	}
	return nil
}

// syncWallet brings the store of the wallet under test to the manager's tip
// (the wallet does not subscribe itself; its integrator feeds it, exactly like
// the repository's own syncDB test helper).
func (wd *world) syncWallet() error {
	if err := syncOne(wd.cm, wd.ws, wd.w); err != nil {
		return fmt.Errorf("INFRA: wallet sync: %w", err)
	}
	return nil
}

// syncWalletPartial feeds the wallet one chunk of at most n updates (it may end
// in the middle of a reorg path, also on a revert).
func (wd *world) syncWalletPartial(n int) error {
	tip, err := wd.ws.Tip()
	if err != nil {
		return err
	}
	reverted, applied, err := wd.cm.UpdatesSince(tip, n)
	if err != nil {
		return fmt.Errorf("INFRA: UpdatesSince(%v, %d): %w", tip, n, err)
	}
	if err := wd.ws.UpdateChainState(func(tx wallet.UpdateTx) error {
		return wd.w.UpdateChainState(tx, reverted, applied)
	}); err != nil {
		return fmt.Errorf("INFRA: wallet sync: %w", err)
	}
	wd.cs.Class("sync=partial-chunk")
	if len(reverted) > 0 && len(applied) == 0 {
		wd.cs.Class("sync=chunk-ends-on-a-revert")
	}
	return nil
}

func (wd *world) sync() error {
	if err := wd.syncOthers(); err != nil {
		return err
	}
	return wd.syncWallet()
}

// afterChainChange feeds everyone but, if lag is set, the wallet under test.
func (wd *world) afterChainChange(lag bool) error {
	if lag {
		wd.cs.Class("chain-op=wallet-not-fed")
		return wd.syncOthers()
	}
	return wd.sync()
}

func (wd *world) lagging() bool {
	tip, _ := wd.ws.Tip()
	return tip != wd.cm.Tip()
}

func (wd *world) height() uint64 { return wd.cm.Tip().Height }
func (wd *world) v1Allowed() bool {
	return wd.height()+1 < wd.net.HardforkV2.RequireHeight
}
func (wd *world) v2Allowed() bool {
	return wd.height()+1 >= wd.net.HardforkV2.AllowHeight
}

// ---------------------------------------------------------------- model

// snapshot is the harness' own view of the facts the property talks about,
// taken from the wallet's store (unspent set) and the manager's pool directly.
type snapshot struct {
	tip     types.ChainIndex              // the wallet store's tip
	cmTip   types.ChainIndex              // the manager's tip (differs while the wallet lags)
	chainU  map[scID]types.SiacoinElement // unspent for the address at the manager's tip (reference store)
	U       map[scID]types.SiacoinElement // store's unspent set
	P       map[scID]bool                 // spent by a pooled transaction
	E       map[scID]types.SiacoinElement // created by a pooled transaction for the wallet, unspent in the pool
	creator map[scID]int                  // 1: created by a pooled v1 transaction, 2: by a v2 transaction
}

func (wd *world) snapshot() (snapshot, error) {
	s := snapshot{U: map[scID]types.SiacoinElement{}, P: map[scID]bool{}, E: map[scID]types.SiacoinElement{}, creator: map[scID]int{}}
	tip, utxos, err := wd.ws.UnspentSiacoinElements()
	if err != nil {
		return s, err
	}
	s.tip = tip
	s.cmTip = wd.cm.Tip()
	s.chainU = map[scID]types.SiacoinElement{}
	rtip, rutxos, err := wd.ts.UnspentSiacoinElements()
	if err != nil {
		return s, err
	}
	if rtip != s.cmTip {
		return s, fmt.Errorf("INFRA: reference store tip %v != manager tip %v", rtip, s.cmTip)
	}
	for _, u := range rutxos {
		s.chainU[u.ID] = u
	}
	for _, u := range utxos {
		s.U[u.ID] = u
	}
	for _, txn := range wd.cm.PoolTransactions() {
		for _, in := range txn.SiacoinInputs {
			s.P[in.ParentID] = true
			delete(s.E, in.ParentID)
		}
		for i, o := range txn.SiacoinOutputs {
			if o.Address == wd.waddr {
				id := txn.SiacoinOutputID(i)
				s.E[id] = types.SiacoinElement{ID: id, StateElement: types.StateElement{LeafIndex: types.UnassignedLeafIndex}, SiacoinOutput: o}
				s.creator[id] = 1
			}
		}
	}
	for _, txn := range wd.cm.V2PoolTransactions() {
		for _, in := range txn.SiacoinInputs {
			s.P[in.Parent.ID] = true
			delete(s.E, in.Parent.ID)
		}
		for i, o := range txn.SiacoinOutputs {
			if o.Address == wd.waddr {
				e := txn.EphemeralSiacoinOutput(i)
				s.E[e.ID] = e
				s.creator[e.ID] = 2
			}
		}
	}
	return s, nil
}

const (
	lockNo = iota
	lockYes
	lockUnknown
)

// lockState decides, for a wallet call that ran between the clock readings t0
// and t1, whether the model's reservation of id was certainly in force,
// certainly over, or undecidable (only possible with the 50 ms duration).
func (wd *world) lockState(id scID, t0, t1 time.Time) int {
	r, ok := wd.res[id]
	if !ok {
		return lockNo
	}
	if t1.Before(r.lo) {
		return lockYes
	}
	if t0.After(r.hi) {
		return lockNo
	}
	return lockUnknown
}

type view struct {
	snap      snapshot
	S         map[scID]types.SiacoinElement // certainly spendable
	sumS      types.Currency
	Efree     map[scID]types.SiacoinElement // unconfirmed and certainly not reserved
	sumE      types.Currency
	uncertain bool // some otherwise spendable / unconfirmed output has an undecidable reservation
}

func (wd *world) view(t0, t1 time.Time) (view, error) {
	snap, err := wd.snapshot()
	if err != nil {
		return view{}, err
	}
	v := view{snap: snap, S: map[scID]types.SiacoinElement{}, Efree: map[scID]types.SiacoinElement{}}
	for id, u := range snap.U {
		if u.MaturityHeight > snap.tip.Height || snap.P[id] {
			continue
		}
		switch wd.lockState(id, t0, t1) {
		case lockNo:
			v.S[id] = u
			v.sumS = v.sumS.Add(u.SiacoinOutput.Value)
		case lockUnknown:
			v.uncertain = true
		}
	}
	for id, e := range snap.E {
		if _, confirmed := snap.U[id]; confirmed {
			// only while the wallet lags behind a reorg: the block that created
			// the output was reverted (its transaction is back in the pool), the
			// store still lists it. It is one output, counted with the confirmed ones.
			continue
		}
		switch wd.lockState(id, t0, t1) {
		case lockNo:
			v.Efree[id] = e
			v.sumE = v.sumE.Add(e.SiacoinOutput.Value)
		case lockUnknown:
			v.uncertain = true
		}
	}
	return v, nil
}

func sortedByValue(m map[scID]types.SiacoinElement) []types.SiacoinElement {
	out := make([]types.SiacoinElement, 0, len(m))
	for _, e := range m {
		out = append(out, e)
	}
	sort.Slice(out, func(i, j int) bool {
		if c := out[i].SiacoinOutput.Value.Cmp(out[j].SiacoinOutput.Value); c != 0 {
			return c > 0
		}
		return string(out[i].ID[:]) < string(out[j].ID[:])
	})
	return out
}

// checkSelected is the per-input oracle: every selected output is owned,
// unspent, mature, not pool-spent, not reserved, and not repeated. seen
// carries the ids already used by the same call (also across the
// transactions of one Redistribute).
func (wd *world) checkSelected(v view, ids []scID, allowUnconfirmed bool, t0, t1 time.Time, seen map[scID]bool) (sum types.Currency, unconfirmedUsed int, err error) {
	for i, id := range ids {
		if seen[id] {
			return sum, 0, fmt.Errorf("input %d (%v) is selected more than once by the same call", i, id)
		}
		seen[id] = true
		ls := wd.lockState(id, t0, t1)
		if ls == lockYes {
			return sum, 0, fmt.Errorf("input %d (%v) is reserved by outstanding request #%d", i, id, wd.res[id].req)
		}
		if u, ok := v.snap.U[id]; ok {
			switch {
			case u.SiacoinOutput.Address != wd.waddr:
				return sum, 0, fmt.Errorf("input %d (%v) pays %v, not the wallet address", i, id, u.SiacoinOutput.Address)
			case u.MaturityHeight > v.snap.tip.Height:
				return sum, 0, fmt.Errorf("input %d (%v) matures at %d, tip height is %d", i, id, u.MaturityHeight, v.snap.tip.Height)
			case v.snap.P[id]:
				return sum, 0, fmt.Errorf("input %d (%v) is already spent by a pooled transaction", i, id)
			}
			sum = sum.Add(u.SiacoinOutput.Value)
			continue
		}
		if e, ok := v.snap.E[id]; ok && allowUnconfirmed {
			sum = sum.Add(e.SiacoinOutput.Value)
			unconfirmedUsed++
			continue
		} else if ok {
			return sum, 0, fmt.Errorf("input %d (%v) is an unconfirmed output although useUnconfirmed is false", i, id)
		}
		if v.snap.P[id] {
			return sum, 0, fmt.Errorf("input %d (%v) is not in the store's unspent set and is spent in the pool", i, id)
		}
		return sum, 0, fmt.Errorf("input %d (%v) is not in the store's unspent set", i, id)
	}
	return sum, unconfirmedUsed, nil
}

func (wd *world) reserve(ids []scID, t0, t1 time.Time, req int) {
	for _, id := range ids {
		wd.res[id] = resv{lo: t0.Add(wd.dur), hi: t1.Add(wd.dur), req: req}
	}
}

// spendableIDs returns SpendableOutputs as a map after checking it has no
// duplicates.
func (wd *world) spendable() (map[scID]types.SiacoinElement, types.Currency, error) {
	so, err := wd.w.SpendableOutputs()
	if err != nil {
		return nil, types.ZeroCurrency, fmt.Errorf("SpendableOutputs: %w", err)
	}
	m := map[scID]types.SiacoinElement{}
	var sum types.Currency
	for _, e := range so {
		if _, dup := m[e.ID]; dup {
			return nil, sum, fmt.Errorf("SpendableOutputs lists %v twice", e.ID)
		}
		m[e.ID] = e
		sum = sum.Add(e.SiacoinOutput.Value)
	}
	return m, sum, nil
}

func diffSets(got, want map[scID]types.SiacoinElement, snap snapshot, wd *world, t0, t1 time.Time) string {
	describe := func(id scID) string {
		var tags []string
		if u, ok := snap.U[id]; ok {
			tags = append(tags, fmt.Sprintf("value=%v maturity=%d", u.SiacoinOutput.Value, u.MaturityHeight))
			if u.MaturityHeight > snap.tip.Height {
				tags = append(tags, "immature")
			}
		} else {
			tags = append(tags, "not-in-store")
		}
		if snap.P[id] {
			tags = append(tags, "spent-in-pool")
		}
		switch wd.lockState(id, t0, t1) {
		case lockYes:
			tags = append(tags, fmt.Sprintf("reserved-by-#%d", wd.res[id].req))
		case lockUnknown:
			tags = append(tags, "reservation-undecidable")
		}
		return fmt.Sprintf("%v[%v]", id, tags)
	}
	var extra, missing []string
	for id := range got {
		if _, ok := want[id]; !ok {
			extra = append(extra, describe(id))
		}
	}
	for id := range want {
		if _, ok := got[id]; !ok {
			missing = append(missing, describe(id))
		}
	}
	sort.Strings(extra)
	sort.Strings(missing)
	if len(extra)+len(missing) == 0 {
		return ""
	}
	return fmt.Sprintf("listed but not spendable by the model: %v; spendable by the model but not listed: %v", extra, missing)
}

// audit is the agreement oracle: Balance().Spendable = Σ SpendableOutputs() =
// Σ model = the largest amount FundTransaction(…, false) funds.
func (wd *world) audit(where string) error {
	t0 := time.Now()
	so, soSum, err := wd.spendable()
	if err != nil {
		return fmt.Errorf("%s: %w", where, err)
	}
	bal, err := wd.w.Balance()
	if err != nil {
		return fmt.Errorf("%s: Balance: %w", where, err)
	}
	// selection probe: exactly the spendable sum must be fundable, one more not
	var probe types.Transaction
	var probeErr, overErr error
	var probed bool
	if !soSum.IsZero() {
		probed = true
		_, probeErr = wd.w.FundTransaction(&probe, soSum, false)
		if probeErr == nil {
			wd.w.ReleaseInputs([]types.Transaction{probe}, nil)
		}
	}
	var over types.Transaction
	_, overErr = wd.w.FundTransaction(&over, soSum.Add(types.NewCurrency64(1)), false)
	if overErr == nil {
		wd.w.ReleaseInputs([]types.Transaction{over}, nil)
	}
	// the same with useUnconfirmed: everything confirmed and every unconfirmed
	// output that is not reserved, and not one hasting more
	pre, err := wd.view(t0, t0)
	if err != nil {
		return err
	}
	var uprobe, uover types.Transaction
	var uprobeErr, uoverErr error
	uprobed := len(pre.snap.E) > 0 || len(wd.cm.V2PoolTransactions())+len(wd.cm.PoolTransactions()) > 0
	uamount := pre.sumS.Add(pre.sumE)
	if uprobed {
		if !uamount.IsZero() {
			_, uprobeErr = wd.w.FundTransaction(&uprobe, uamount, true)
			if uprobeErr == nil {
				wd.w.ReleaseInputs([]types.Transaction{uprobe}, nil)
			}
		}
		_, uoverErr = wd.w.FundTransaction(&uover, uamount.Add(oneH), true)
		if uoverErr == nil {
			wd.w.ReleaseInputs([]types.Transaction{uover}, nil)
		}
	}
	so2, _, err := wd.spendable()
	if err != nil {
		return fmt.Errorf("%s: %w", where, err)
	}
	t1 := time.Now()

	v, err := wd.view(t0, t1)
	if err != nil {
		return err
	}
	wd.classifyState(v, t0, t1)
	if v.uncertain {
		wd.cs.Class("audit=skipped-undecidable-reservation")
		return nil
	}
	if d := diffSets(so, v.S, v.snap, wd, t0, t1); d != "" {
		return fmt.Errorf("%s: SpendableOutputs disagrees with the model (store unspent ∧ mature ∧ not pool-spent ∧ not reserved): %s", where, d)
	}
	if !soSum.Equals(v.sumS) {
		return fmt.Errorf("%s: Σ SpendableOutputs = %v, model = %v", where, soSum, v.sumS)
	}
	if lag := v.snap.tip != v.snap.cmTip; lag {
		// Balance judges maturity at the manager's height, SpendableOutputs and
		// selection at the store's: they are only required to agree once the
		// wallet has processed the stream up to the manager's tip
		wd.cs.Class("audit=while-wallet-lags (no Balance comparison)")
	} else if !bal.Spendable.Equals(soSum) {
		return fmt.Errorf("%s: Balance().Spendable = %v but Σ SpendableOutputs() = %v (model %v)", where, bal.Spendable, soSum, v.sumS)
	} else {
		// the other three figures of the same call, against the model
		var confirmed, immature, unconfirmed types.Currency
		for _, u := range v.snap.U {
			if u.MaturityHeight > v.snap.tip.Height {
				immature = immature.Add(u.SiacoinOutput.Value)
			} else {
				confirmed = confirmed.Add(u.SiacoinOutput.Value)
			}
		}
		for _, e := range v.snap.E {
			unconfirmed = unconfirmed.Add(e.SiacoinOutput.Value)
		}
		if !bal.Confirmed.Equals(confirmed) || !bal.Immature.Equals(immature) || !bal.Unconfirmed.Equals(unconfirmed) {
			return fmt.Errorf("%s: Balance() = confirmed %v / immature %v / unconfirmed %v, the model has %v / %v / %v", where, bal.Confirmed, bal.Immature, bal.Unconfirmed, confirmed, immature, unconfirmed)
		}
	}
	if probed {
		if probeErr != nil {
			return fmt.Errorf("%s: FundTransaction(Σ SpendableOutputs = %v, false) failed: %v", where, soSum, probeErr)
		}
		ids := make([]scID, len(probe.SiacoinInputs))
		for i, in := range probe.SiacoinInputs {
			ids[i] = in.ParentID
		}
		sum, _, err := wd.checkSelected(v, ids, false, t0, t1, map[scID]bool{})
		if err != nil {
			return fmt.Errorf("%s: FundTransaction(Σ SpendableOutputs = %v, false): %w", where, soSum, err)
		}
		var change types.Currency
		for _, o := range probe.SiacoinOutputs {
			change = change.Add(o.Value)
		}
		if !sum.Equals(soSum.Add(change)) {
			return fmt.Errorf("%s: FundTransaction(%v, false): Σ inputs %v != amount + change (change %v)", where, soSum, sum, change)
		}
	}
	if overErr == nil {
		return fmt.Errorf("%s: FundTransaction(Σ SpendableOutputs + 1 H = %v, false) succeeded with %d inputs", where, soSum.Add(types.NewCurrency64(1)), len(over.SiacoinInputs))
	} else if !errors.Is(overErr, wallet.ErrNotEnoughFunds) {
		return fmt.Errorf("%s: FundTransaction(Σ SpendableOutputs + 1 H, false) failed with %v, want ErrNotEnoughFunds", where, overErr)
	}
	if uprobed {
		wd.cs.Class("audit=useUnconfirmed-probe")
		amt := v.sumS.Add(v.sumE)
		if !amt.Equals(uamount) {
			// the pool changed between the two readings: impossible in this
			// single-threaded machine
			return fmt.Errorf("INFRA: model changed inside an audit")
		}
		if !amt.IsZero() {
			if uprobeErr != nil {
				return fmt.Errorf("%s: FundTransaction(spendable + unconfirmed = %v, true) failed: %v", where, amt, uprobeErr)
			}
			ids := make([]scID, len(uprobe.SiacoinInputs))
			for i, in := range uprobe.SiacoinInputs {
				ids[i] = in.ParentID
			}
			sum, _, err := wd.checkSelected(v, ids, true, t0, t1, map[scID]bool{})
			if err != nil {
				return fmt.Errorf("%s: FundTransaction(spendable + unconfirmed = %v, true): %w", where, amt, err)
			}
			var change types.Currency
			for _, o := range uprobe.SiacoinOutputs {
				change = change.Add(o.Value)
			}
			if !sum.Equals(amt.Add(change)) {
				return fmt.Errorf("%s: FundTransaction(%v, true): Σ inputs %v != amount + change (change %v)", where, amt, sum, change)
			}
		}
		if uoverErr == nil {
			ids := make([]scID, len(uover.SiacoinInputs))
			for i, in := range uover.SiacoinInputs {
				ids[i] = in.ParentID
			}
			if _, _, err := wd.checkSelected(v, ids, true, t0, t1, map[scID]bool{}); err != nil {
				return fmt.Errorf("%s: FundTransaction(spendable + unconfirmed + 1 H = %v, true) succeeded: %w", where, amt.Add(oneH), err)
			}
			return fmt.Errorf("%s: FundTransaction(spendable + unconfirmed + 1 H = %v, true) succeeded with %d inputs", where, amt.Add(oneH), len(uover.SiacoinInputs))
		} else if !errors.Is(uoverErr, wallet.ErrNotEnoughFunds) {
			return fmt.Errorf("%s: FundTransaction(spendable + unconfirmed + 1 H, true) failed with %v, want ErrNotEnoughFunds", where, uoverErr)
		}
	}
	if d := diffSets(so2, v.S, v.snap, wd, t0, t1); d != "" {
		return fmt.Errorf("%s: after released exact-amount requests and failed requests SpendableOutputs changed: %s", where, d)
	}
	return nil
}

func (wd *world) classifyState(v view, t0, t1 time.Time) {
	var reserved, poolSpent, immature bool
	for id, u := range v.snap.U {
		if wd.lockState(id, t0, t1) == lockYes {
			reserved = true
		}
		if v.snap.P[id] {
			poolSpent = true
		}
		if u.MaturityHeight > v.snap.tip.Height {
			immature = true
		}
	}
	unconfirmed := len(v.snap.E) > 0
	if v.snap.tip != v.snap.cmTip {
		wd.cs.Class("state=wallet-lags-behind-manager")
		if bi, ok := wd.cm.BestIndex(v.snap.tip.Height); !ok || bi != v.snap.tip {
			wd.cs.Class("state=wallet-on-stale-branch")
		}
		for id := range v.S {
			if _, ok := v.snap.chainU[id]; !ok {
				wd.cs.Class("state=store-lists-output-already-spent-or-reverted-on-chain")
				break
			}
		}
	}
	if reserved {
		wd.feat.reserved = true
		wd.cs.Class("state=reserved-output")
	}
	if poolSpent {
		wd.feat.poolSpent = true
		wd.cs.Class("state=pool-spent-output")
	}
	if immature {
		wd.feat.immature = true
		wd.cs.Class("state=immature-output")
	}
	if unconfirmed {
		wd.feat.unconfirmed = true
		wd.cs.Class("state=unconfirmed-output")
	}
	if reserved && poolSpent && immature && unconfirmed {
		wd.feat.all4 = true
		wd.cs.Class("state=reserved+pool-spent+immature+unconfirmed")
	}
	n := len(v.S)
	switch {
	case n == 0:
		wd.cs.Class("spendable-utxos=0")
	case n <= 5:
		wd.cs.Class("spendable-utxos=1..5")
	case n <= 20:
		wd.cs.Class("spendable-utxos=6..20")
	default:
		wd.cs.Class("spendable-utxos=21+")
	}
}

// ---------------------------------------------------------------- blocks

// ledgerFor returns the reference ledger of a block the manager stores,
// building it (and its ancestors') on demand through core.
func (wd *world) ledgerFor(id types.BlockID) (*refl.Ledger, error) {
	if l, ok := wd.ledgers[id]; ok {
		return l, nil
	}
	b, ok := wd.cm.Block(id)
	if !ok {
		return nil, fmt.Errorf("INFRA: block %v unknown to the manager", id)
	}
	pl, err := wd.ledgerFor(b.ParentID)
	if err != nil {
		return nil, err
	}
	l, err := pl.Apply(b, nil)
	if err != nil {
		return nil, fmt.Errorf("INFRA: reference ledger rejects stored block %v: %w", id, err)
	}
	wd.ledgers[id] = l
	return l, nil
}

// extraTxns lets the kit's builder make transactions of actor 1 that involve
// the wallet's address without going through the pool: direct payments, a
// siafund spend whose claim goes to the wallet, contracts with the wallet as
// counterparty and operations on them. They land in the same block as the
// wallet's own pooled spends (and, when the wallet mines, its miner payout).
func (wd *world) extraTxns(parent types.BlockID, op Op) ([]types.Transaction, []types.V2Transaction, error) {
	if len(op.Extra) == 0 || wd.wactor < 0 {
		return nil, nil, nil
	}
	l, err := wd.ledgerFor(parent)
	if err != nil {
		return nil, nil, err
	}
	bb := kit.NewBlockBuilder(l)
	for i, x := range op.Extra {
		in := kit.Intent{Who: 1, To: wd.wactor, A: wd.wactor, Pick: i, Amt: 2 + i, B: i, V2: op.V2}
		switch modInt(x, 4) {
		case 0:
			in.Kind = "pay"
		case 1:
			in.Kind, in.To = "sf", 1
		case 2:
			in.Kind = "form"
		default:
			in.Kind = "fcop"
		}
		if bb.Add(in) {
			wd.cs.Class("mine-extra=" + in.Kind)
		}
	}
	return bb.Txns, bb.V2Txns, nil
}

func (wd *world) mineOn(cs consensus.State, miner types.Address, withPool bool, tsExtra time.Duration, extra ...any) types.Block {
	var txns []types.Transaction
	var v2txns []types.V2Transaction
	for _, e := range extra {
		switch x := e.(type) {
		case []types.Transaction:
			txns = append(txns, x...)
		case []types.V2Transaction:
			v2txns = append(v2txns, x...)
		}
	}
	h := cs.Index.Height + 1
	if withPool {
		if h < wd.net.HardforkV2.RequireHeight {
			txns = append(wd.cm.PoolTransactions(), txns...)
		}
		if h >= wd.net.HardforkV2.AllowHeight {
			v2txns = append(wd.cm.V2PoolTransactions(), v2txns...)
		}
	}
	ts := cs.PrevTimestamps[0].Add(time.Second + tsExtra)
	return kit.AssembleBlock(cs, ts, miner, txns, v2txns, 0)
}

func (wd *world) opMine(op Op) error {
	miner := wd.waddr
	withPool := true
	switch t := modInt(op.B, 6); {
	case t >= 3 && t <= 4:
		miner = wd.paddr
	case t == 5:
		miner = wd.paddr
		withPool = false
	}
	n := clampInt(op.N, 1, 3)
	for i := 0; i < n; i++ {
		var x1 []types.Transaction
		var x2 []types.V2Transaction
		if i == 0 {
			var err error
			if x1, x2, err = wd.extraTxns(wd.cm.Tip().ID, op); err != nil {
				return err
			}
		}
		b := wd.mineOn(wd.cm.TipState(), miner, withPool, 0, x1, x2)
		if len(x1)+len(x2) > 0 {
			ownSpend := false
			for _, t := range b.Transactions[:len(b.Transactions)-len(x1)] {
				for _, in := range t.SiacoinInputs {
					ownSpend = ownSpend || in.UnlockConditions.UnlockHash() == wd.waddr
				}
			}
			if b.V2 != nil {
				for _, t := range b.V2.Transactions[:len(b.V2.Transactions)-len(x2)] {
					for _, in := range t.SiacoinInputs {
						ownSpend = ownSpend || in.Parent.SiacoinOutput.Address == wd.waddr
					}
				}
			}
			if ownSpend {
				wd.cs.Class("mine=block-with-own-spend-and-foreign-transactions-for-the-wallet")
				if miner == wd.waddr {
					wd.cs.Class("mine=block-with-own-spend,-own-miner-payout-and-foreign-transactions")
				}
			}
		}
		if len(b.Transactions) > 0 || (b.V2 != nil && len(b.V2.Transactions) > 0) {
			wd.cs.Class("mine=confirms-pool")
		}
		if err := wd.cm.AddBlocks([]types.Block{b}); err != nil {
			return fmt.Errorf("INFRA: mined block rejected: %w", err)
		}
	}
	if miner == wd.waddr {
		wd.cs.Class("mine=to-wallet")
	} else {
		wd.cs.Class("mine=to-other")
	}
	return wd.afterChainChange(op.Lag)
}

func (wd *world) opReorg(op Op) error {
	h := wd.height()
	k := uint64(clampInt(op.N, 1, 4))
	if k > h {
		k = h
	}
	if k == 0 {
		wd.cs.Class("reorg=skipped-at-genesis")
		return nil
	}
	base, ok := wd.cm.BestIndex(h - k)
	if !ok {
		return fmt.Errorf("INFRA: no best index at %d", h-k)
	}
	// Fork blocks commit to the full parent state (element accumulator), which
	// the manager only keeps for the best chain: rebuild it on a shadow manager.
	sdb, sTip, err := chain.NewDBStore(chain.NewMemDB(), wd.net, wd.genesis, nil)
	if err != nil {
		return fmt.Errorf("INFRA: shadow store: %w", err)
	}
	shadow := chain.NewManager(sdb, sTip)
	var prefix []types.Block
	for hh := uint64(1); hh <= base.Height; hh++ {
		idx, ok := wd.cm.BestIndex(hh)
		if !ok {
			return fmt.Errorf("INFRA: no best index at %d", hh)
		}
		b, ok := wd.cm.Block(idx.ID)
		if !ok {
			return fmt.Errorf("INFRA: no block %v", idx)
		}
		prefix = append(prefix, b)
	}
	if err := shadow.AddBlocks(prefix); err != nil {
		return fmt.Errorf("INFRA: shadow chain: %w", err)
	}
	wd.forks++
	miner := wd.other
	if op.B%2 == 1 {
		miner = wd.waddr
	}
	var fork []types.Block
	tipState := wd.cm.TipState()
	for i := 0; i < int(k)+8; i++ {
		extra := time.Duration(0)
		if i == 0 {
			extra = time.Duration(wd.forks) * time.Second
		}
		b := wd.mineOn(shadow.TipState(), miner, false, extra)
		if err := shadow.AddBlocks([]types.Block{b}); err != nil {
			return fmt.Errorf("INFRA: shadow fork block rejected: %w", err)
		}
		fork = append(fork, b)
		if shadow.TipState().SufficientlyHeavierThan(tipState) {
			break
		}
	}
	oldTip := wd.cm.Tip()
	if err := wd.cm.AddBlocks(fork); err != nil {
		return fmt.Errorf("INFRA: fork rejected: %w", err)
	}
	if wd.cm.Tip() == oldTip || wd.cm.Tip() != shadow.Tip() {
		return fmt.Errorf("INFRA: fork of %d blocks from %d back did not become the best chain", len(fork), k)
	}
	wd.cs.Classf("reorg-depth=%d", k)
	return wd.afterChainChange(op.Lag)
}

// ---------------------------------------------------------------- ops

func clampInt(v, lo, hi int) int {
	if v < lo {
		return lo
	}
	if v > hi {
		return hi
	}
	return v
}

func modInt(i, n int) int {
	if n <= 0 {
		return 0
	}
	return ((i % n) + n) % n
}

var oneH = types.NewCurrency64(1)

// fraction returns v·num/den without overflowing for very large v (the
// foundation subsidy of the test network is close to 2^120 hastings).
func fraction(v types.Currency, num, den uint64) types.Currency {
	if _, overflow := v.Mul64WithOverflow(num); overflow {
		return v.Div64(den).Mul64(num)
	}
	return v.Mul64(num).Div64(den)
}

func (wd *world) opPay(op Op) error {
	var outs []types.SiacoinOutput
	var total types.Currency
	for i, s := range op.Sizes {
		// distinct values (a few hastings apart) so that the wallet's map-order
		// tie-breaks among unconfirmed outputs do not make replays diverge
		v := paySizes[modInt(s, len(paySizes))].Add(types.NewCurrency64(uint64(16*(wd.pays%64) + i%16)))
		outs = append(outs, types.SiacoinOutput{Address: wd.waddr, Value: v})
		total = total.Add(v)
	}
	wd.pays++
	if len(outs) == 0 {
		return nil
	}
	v2 := op.V2
	if v2 && !wd.v2Allowed() {
		v2 = false
	}
	if !v2 && !wd.v1Allowed() {
		v2 = true
	}
	var payFee types.Currency
	if op.B%2 == 1 {
		payFee = types.NewCurrency64(1000)
		total = total.Add(payFee)
		wd.cs.Class("pay=with-fee")
	}
	if v2 {
		txn := types.V2Transaction{SiacoinOutputs: outs, MinerFee: payFee}
		basis, toSign, err := wd.p.FundV2Transaction(&txn, total, false)
		if err != nil {
			wd.cs.Class("pay=skipped-payer-broke")
			return nil
		}
		wd.p.SignV2Inputs(&txn, toSign)
		if _, err := wd.cm.AddV2PoolTransactions(basis, []types.V2Transaction{txn}); err != nil {
			wd.p.ReleaseInputs(nil, []types.V2Transaction{txn})
			return fmt.Errorf("payer wallet (same code, default options): its funded and signed v2 payment was rejected by the pool: %w", err)
		}
		wd.cs.Class("pay=v2")
	} else {
		txn := types.Transaction{SiacoinOutputs: outs}
		if !payFee.IsZero() {
			txn.MinerFees = []types.Currency{payFee}
		}
		toSign, err := wd.p.FundTransaction(&txn, total, false)
		if err != nil {
			wd.cs.Class("pay=skipped-payer-broke")
			return nil
		}
		wd.p.SignTransaction(&txn, toSign, types.CoveredFields{WholeTransaction: true})
		if _, err := wd.cm.AddPoolTransactions([]types.Transaction{txn}); err != nil {
			wd.p.ReleaseInputs([]types.Transaction{txn}, nil)
			return fmt.Errorf("payer wallet (same code, default options): its funded and signed v1 payment was rejected by the pool: %w", err)
		}
		wd.cs.Class("pay=v1")
	}
	return nil
}

// fundAmount resolves the amount selector against the model.
func fundAmount(op Op, v view) (types.Currency, string) {
	base := v.sumS
	if op.U {
		base = base.Add(v.sumE)
	}
	f := uint64(clampInt(op.F, 1, 999))
	switch modInt(op.A, 9) {
	case 0:
		return types.ZeroCurrency, "zero"
	case 1:
		return oneH, "one-hasting"
	case 2:
		a := fraction(base, f, 1000)
		if a.IsZero() {
			a = oneH
		}
		return a, "fraction"
	case 3:
		return v.sumS, "exactly-spendable"
	case 4:
		return v.sumS.Add(oneH), "spendable+1"
	case 5:
		return v.sumS.Add(v.sumE), "exactly-spendable+unconfirmed"
	case 6:
		return v.sumS.Add(v.sumE).Add(oneH), "spendable+unconfirmed+1"
	case 7:
		s := sortedByValue(v.S)
		if len(s) == 0 {
			return oneH, "one-hasting"
		}
		return s[modInt(op.N, len(s))].SiacoinOutput.Value, "value-of-one-utxo"
	default:
		s := sortedByValue(v.S)
		if len(s) == 0 {
			return oneH, "one-hasting"
		}
		a := fraction(s[0].SiacoinOutput.Value, f, 1000)
		if a.IsZero() {
			a = oneH
		}
		return a, "fraction-of-largest"
	}
}

// greedyCount is the number of inputs a largest-first selection needs.
func greedyCount(v view, amount types.Currency) int {
	var sum types.Currency
	n := 0
	for _, u := range sortedByValue(v.S) {
		if sum.Cmp(amount) >= 0 {
			break
		}
		sum = sum.Add(u.SiacoinOutput.Value)
		n++
	}
	return n
}

func fakeInputsV1(n int) []types.SiacoinInput {
	var ins []types.SiacoinInput
	for i := 0; i < n; i++ {
		ins = append(ins, types.SiacoinInput{ParentID: scID{0xfa, byte(i)}, UnlockConditions: kit.Actors[1].UC})
	}
	return ins
}

func fakeInputsV2(n int) []types.V2SiacoinInput {
	var ins []types.V2SiacoinInput
	for i := 0; i < n; i++ {
		ins = append(ins, types.V2SiacoinInput{Parent: types.SiacoinElement{ID: scID{0xfa, byte(i)}, StateElement: types.StateElement{LeafIndex: types.UnassignedLeafIndex},
			SiacoinOutput: types.SiacoinOutput{Address: kit.Actors[1].Addr, Value: oneH}}})
	}
	return ins
}

// checkBasis: the index a v2 funding call returns "should be used as the basis
// for AddV2PoolTransactions", i.e. it names the accumulator state the inputs'
// Merkle proofs belong to. The proofs came from the wallet's store, so they
// must verify at that index also when the manager is ahead of the store.
func (wd *world) checkBasis(where string, basis types.ChainIndex, txns []types.V2Transaction) error {
	storeTip, _ := wd.ws.Tip()
	st, ok := wd.cm.State(basis.ID)
	if !ok {
		return fmt.Errorf("%s: the returned basis %v is unknown to the manager (store tip %v, chain tip %v)", where, basis, storeTip, wd.cm.Tip())
	}
	for i, txn := range txns {
		if err := st.Elements.ValidateTransactionElements(txn); err != nil {
			return fmt.Errorf("%s: txn %d: the Merkle proofs of the selected inputs do not verify at the returned basis %v (store tip %v, chain tip %v): %v", where, i, basis, storeTip, wd.cm.Tip(), err)
		}
	}
	if basis != wd.cm.Tip() {
		wd.cs.Class("basis=behind-the-chain-tip")
	}
	return nil
}

func (wd *world) opFund(op Op, step int) error {
	where := fmt.Sprintf("step %d fund(v2=%v,useUnconfirmed=%v)", step, op.V2, op.U)
	pre, err := wd.view(time.Now(), time.Now())
	if err != nil {
		return err
	}
	amount, amountClass := fundAmount(op, pre)
	wd.cs.Class("fund-amount=" + amountClass)
	fake := clampInt(op.B, 0, 3)
	// payee output(s): amount = payee + fee so that the funded transaction balances
	var fee types.Currency
	payee := amount
	if amount.Cmp(types.NewCurrency64(1000)) > 0 && op.F%2 == 0 {
		fee = amount.Div64(1000)
		payee = amount.Sub(fee)
	}
	tB := time.Now() // the before/after comparison spans [tB, t2]
	before, _, err := wd.spendable()
	if err != nil {
		return fmt.Errorf("%s: %w", where, err)
	}

	req := &request{id: len(wd.reqs), noSubmit: fake > 0}
	var ids []scID
	var changeOuts []types.SiacoinOutput
	var callErr error
	var t0, t1 time.Time
	if op.V2 {
		req.kind = "v2"
		txn := types.V2Transaction{MinerFee: fee, SiacoinInputs: fakeInputsV2(fake)}
		if !payee.IsZero() {
			txn.SiacoinOutputs = []types.SiacoinOutput{{Address: wd.other, Value: payee}}
		}
		nOut, nIn := len(txn.SiacoinOutputs), len(txn.SiacoinInputs)
		t0 = time.Now()
		basis, toSign, err := wd.w.FundV2Transaction(&txn, amount, op.U)
		t1 = time.Now()
		callErr = err
		if err == nil {
			if len(txn.SiacoinInputs) > nIn {
				if err := wd.checkBasis(where, basis, []types.V2Transaction{{SiacoinInputs: txn.SiacoinInputs[nIn:]}}); err != nil {
					return err
				}
			}
			if len(toSign) != len(txn.SiacoinInputs)-nIn {
				return fmt.Errorf("%s: %d inputs added, %d indices to sign", where, len(txn.SiacoinInputs)-nIn, len(toSign))
			}
			for i, idx := range toSign {
				if idx != nIn+i {
					return fmt.Errorf("%s: toSign[%d] = %d, want %d", where, i, idx, nIn+i)
				}
			}
			for _, in := range txn.SiacoinInputs[nIn:] {
				ids = append(ids, in.Parent.ID)
				want, ok := pre.snap.U[in.Parent.ID]
				if !ok {
					want, ok = pre.snap.E[in.Parent.ID]
				}
				if ok && (in.Parent.SiacoinOutput != want.SiacoinOutput || in.Parent.MaturityHeight != want.MaturityHeight || in.Parent.StateElement.LeafIndex != want.StateElement.LeafIndex) {
					return fmt.Errorf("%s: parent element of input %v differs from the store's element (%+v vs %+v)", where, in.Parent.ID, in.Parent.SiacoinOutput, want.SiacoinOutput)
				}
			}
			changeOuts = txn.SiacoinOutputs[nOut:]
			req.v2 = []types.V2Transaction{txn}
			req.toSignV2 = [][]int{toSign}
			req.basis = basis
		}
	} else {
		req.kind = "v1"
		txn := types.Transaction{SiacoinInputs: fakeInputsV1(fake)}
		if !fee.IsZero() {
			txn.MinerFees = []types.Currency{fee}
		}
		if !payee.IsZero() {
			txn.SiacoinOutputs = []types.SiacoinOutput{{Address: wd.other, Value: payee}}
		}
		nOut, nIn := len(txn.SiacoinOutputs), len(txn.SiacoinInputs)
		t0 = time.Now()
		toSign, err := wd.w.FundTransaction(&txn, amount, op.U)
		t1 = time.Now()
		callErr = err
		if err == nil {
			if len(toSign) != len(txn.SiacoinInputs)-nIn {
				return fmt.Errorf("%s: %d inputs added, %d ids to sign", where, len(txn.SiacoinInputs)-nIn, len(toSign))
			}
			for i, in := range txn.SiacoinInputs[nIn:] {
				ids = append(ids, in.ParentID)
				if toSign[i] != types.Hash256(in.ParentID) {
					return fmt.Errorf("%s: toSign[%d] does not name input %d", where, i, i)
				}
				if in.UnlockConditions.UnlockHash() != wd.waddr {
					return fmt.Errorf("%s: input %d carries foreign unlock conditions", where, i)
				}
			}
			changeOuts = txn.SiacoinOutputs[nOut:]
			req.v1 = txn
			req.toSignV1 = toSign
		}
	}
	v, err := wd.view(t0, t1)
	if err != nil {
		return err
	}
	avail := v.sumS
	if op.U {
		avail = avail.Add(v.sumE)
	}
	if callErr != nil {
		wd.cs.Class("fund=error")
		if !errors.Is(callErr, wallet.ErrNotEnoughFunds) {
			return fmt.Errorf("%s: amount %v failed with %v", where, amount, callErr)
		}
		if !v.uncertain && amount.Cmp(avail) <= 0 {
			return fmt.Errorf("%s: amount %v refused (%v) although the model has %v available (spendable %v, unconfirmed %v)", where, amount, callErr, avail, v.sumS, v.sumE)
		}
		// a failed request reserves nothing and leaves SpendableOutputs unchanged
		after, _, err := wd.spendable()
		if err != nil {
			return fmt.Errorf("%s: %w", where, err)
		}
		if t2 := time.Now(); !wd.anyUndecidable(before, after, tB, t2) {
			if d := diffSets(after, before, v.snap, wd, t0, t2); d != "" {
				return fmt.Errorf("%s: the call failed (%v) but SpendableOutputs changed: %s", where, callErr, d)
			}
		}
		return nil
	}
	// success
	if amount.IsZero() {
		wd.cs.Class("fund=zero-amount-noop")
		if len(ids) != 0 || len(changeOuts) != 0 {
			return fmt.Errorf("%s: amount 0 added %d inputs and %d outputs", where, len(ids), len(changeOuts))
		}
		return nil
	}
	sum, nUnconf, err := wd.checkSelected(v, ids, op.U, t0, t1, map[scID]bool{})
	if err != nil {
		return fmt.Errorf("%s: amount %v: %w (inputs %d, config %+v)", where, amount, err, len(ids), wd.cfg)
	}
	if !v.uncertain && amount.Cmp(avail) > 0 {
		return fmt.Errorf("%s: amount %v funded although the model has only %v available", where, amount, avail)
	}
	var change types.Currency
	for _, o := range changeOuts {
		if o.Address != wd.waddr {
			return fmt.Errorf("%s: change output pays %v, not the wallet", where, o.Address)
		}
		change = change.Add(o.Value)
	}
	if len(changeOuts) > 1 {
		return fmt.Errorf("%s: %d outputs were added", where, len(changeOuts))
	}
	if !sum.Equals(amount.Add(change)) {
		return fmt.Errorf("%s: Σ inputs %v != amount %v + change %v", where, sum, amount, change)
	}
	if len(changeOuts) == 1 && change.IsZero() {
		return fmt.Errorf("%s: zero-valued change output added", where)
	}
	wd.cs.Class("fund=ok-" + req.kind)
	if nUnconf > 0 {
		wd.cs.Class("fund=uses-unconfirmed-output")
	}
	if len(changeOuts) == 0 {
		wd.cs.Class("fund=no-change")
	}
	if g := greedyCount(v, amount); nUnconf == 0 && len(ids) > g {
		wd.cs.Class("fund=defrag-branch-ran")
		if wd.cfg.nonDefaultDefrag() {
			wd.feat.defragRan = true
			wd.cs.Class("fund=defrag-branch-ran-nondefault-config")
		}
	}
	if len(ids) == len(v.S) && len(ids) > 0 && nUnconf == 0 {
		wd.cs.Class("fund=selects-every-confirmed-utxo")
	}
	req.ids = ids
	req.unconf = nUnconf > 0
	req.noteValues(v, ids)
	wd.reserve(ids, t0, t1, req.id)
	wd.reqs = append(wd.reqs, req)
	return nil
}

// anyUndecidable reports whether an id on which the two sets differ has an
// undecidable reservation in the window.
func (wd *world) anyUndecidable(a, b map[scID]types.SiacoinElement, t0, t1 time.Time) bool {
	for id := range a {
		if _, ok := b[id]; !ok && wd.lockState(id, t0, t1) == lockUnknown {
			return true
		}
	}
	for id := range b {
		if _, ok := a[id]; !ok && wd.lockState(id, t0, t1) == lockUnknown {
			return true
		}
	}
	return false
}

func (wd *world) outstanding(submittable bool) []*request {
	var out []*request
	for _, r := range wd.reqs {
		if r.state == 0 && (!submittable || !r.noSubmit) {
			out = append(out, r)
		}
	}
	return out
}

func (wd *world) release(r *request) {
	if r.kind == "v1" {
		wd.w.ReleaseInputs([]types.Transaction{r.v1}, nil)
	} else {
		wd.w.ReleaseInputs(nil, r.v2)
	}
	for _, id := range r.ids {
		delete(wd.res, id)
	}
}

// opTopUp funds an already funded, still outstanding v1/v2 request a second
// time (as integrators do to add a fee or another payee): the transaction then
// already carries inputs of the wallet, which count towards the defrag limit
// and are reserved.
func (wd *world) opTopUp(op Op, step int) error {
	var cands []*request
	storeTip, _ := wd.ws.Tip()
	now := time.Now()
	for _, r := range wd.outstanding(true) {
		// only requests whose reservation is certainly still in force (not lost
		// by a restart or expired): otherwise the wallet may legitimately offer
		// one of the transaction's own inputs again
		reserved := true
		for _, id := range r.ids {
			if wd.lockState(id, now, now.Add(20*time.Millisecond)) != lockYes {
				reserved = false
			}
		}
		if reserved && (r.kind == "v1" || (r.kind == "v2" && len(r.v2) == 1 && r.basis == storeTip)) {
			cands = append(cands, r)
		}
	}
	if len(cands) == 0 {
		wd.cs.Class("topup=nothing-suitable")
		return nil
	}
	r := cands[modInt(op.N, len(cands))]
	where := fmt.Sprintf("step %d top-up of request #%d (%s, useUnconfirmed=%v)", step, r.id, r.kind, op.U)
	pre, err := wd.view(time.Now(), time.Now())
	if err != nil {
		return err
	}
	base := pre.sumS
	if op.U {
		base = base.Add(pre.sumE)
	}
	amount := fraction(base, uint64(clampInt(op.F, 1, 999)), 4000)
	if amount.IsZero() {
		amount = oneH
	}
	tB := time.Now()
	before, _, err := wd.spendable()
	if err != nil {
		return fmt.Errorf("%s: %w", where, err)
	}
	held := map[scID]bool{}
	for _, id := range r.ids {
		held[id] = true
	}
	var newIDs []scID
	var changeOuts []types.SiacoinOutput
	var callErr error
	var t0, t1 time.Time
	if r.kind == "v1" {
		txn := r.v1
		txn.SiacoinInputs = append([]types.SiacoinInput(nil), r.v1.SiacoinInputs...)
		txn.SiacoinOutputs = append(append([]types.SiacoinOutput(nil), r.v1.SiacoinOutputs...), types.SiacoinOutput{Address: wd.other, Value: amount})
		nIn, nOut := len(txn.SiacoinInputs), len(txn.SiacoinOutputs)
		t0 = time.Now()
		toSign, err := wd.w.FundTransaction(&txn, amount, op.U)
		t1 = time.Now()
		callErr = err
		if err == nil {
			if len(toSign) != len(txn.SiacoinInputs)-nIn {
				return fmt.Errorf("%s: %d inputs added, %d ids to sign", where, len(txn.SiacoinInputs)-nIn, len(toSign))
			}
			for _, in := range txn.SiacoinInputs[nIn:] {
				newIDs = append(newIDs, in.ParentID)
			}
			changeOuts = txn.SiacoinOutputs[nOut:]
			r.v1 = txn
			r.toSignV1 = append(r.toSignV1, toSign...)
		}
	} else {
		txn := r.v2[0].DeepCopy()
		txn.SiacoinOutputs = append(txn.SiacoinOutputs, types.SiacoinOutput{Address: wd.other, Value: amount})
		nIn, nOut := len(txn.SiacoinInputs), len(txn.SiacoinOutputs)
		t0 = time.Now()
		basis, toSign, err := wd.w.FundV2Transaction(&txn, amount, op.U)
		t1 = time.Now()
		callErr = err
		if err == nil {
			if basis != r.basis {
				return fmt.Errorf("%s: second funding returned basis %v, the first %v, the store did not move", where, basis, r.basis)
			}
			for i, idx := range toSign {
				if idx != nIn+i {
					return fmt.Errorf("%s: toSign[%d] = %d, want %d", where, i, idx, nIn+i)
				}
			}
			if len(toSign) != len(txn.SiacoinInputs)-nIn {
				return fmt.Errorf("%s: %d inputs added, %d indices to sign", where, len(txn.SiacoinInputs)-nIn, len(toSign))
			}
			if len(txn.SiacoinInputs) > nIn {
				if err := wd.checkBasis(where, basis, []types.V2Transaction{{SiacoinInputs: txn.SiacoinInputs[nIn:]}}); err != nil {
					return err
				}
			}
			for _, in := range txn.SiacoinInputs[nIn:] {
				newIDs = append(newIDs, in.Parent.ID)
			}
			changeOuts = txn.SiacoinOutputs[nOut:]
			r.v2[0] = txn
			r.toSignV2[0] = append(r.toSignV2[0], toSign...)
		}
	}
	v, err := wd.view(t0, t1)
	if err != nil {
		return err
	}
	if callErr != nil {
		wd.cs.Class("topup=error")
		if !errors.Is(callErr, wallet.ErrNotEnoughFunds) {
			return fmt.Errorf("%s: amount %v failed with %v", where, amount, callErr)
		}
		after, _, err := wd.spendable()
		if err != nil {
			return fmt.Errorf("%s: %w", where, err)
		}
		if t2 := time.Now(); !wd.anyUndecidable(before, after, tB, t2) {
			if d := diffSets(after, before, v.snap, wd, t0, t2); d != "" {
				return fmt.Errorf("%s: the call failed (%v) but SpendableOutputs changed: %s", where, callErr, d)
			}
		}
		return nil
	}
	for i, id := range newIDs {
		if !held[id] {
			continue
		}
		if wd.lockState(id, t0, t1) == lockYes {
			return fmt.Errorf("%s: added input %d (%v) is already an input of the same transaction and reserved by it", where, i, id)
		}
		// the earlier reservation ran out during the call (50 ms): the
		// transaction is unusable by the integrator's own doing
		wd.cs.Class("topup=own-input-offered-again-after-expiry")
		r.ids = append(r.ids, newIDs...)
		r.state = 3
		wd.release(r)
		return nil
	}
	sum, nUnconf, err := wd.checkSelected(v, newIDs, op.U, t0, t1, map[scID]bool{})
	if err != nil {
		return fmt.Errorf("%s: amount %v: %w", where, amount, err)
	}
	var change types.Currency
	for _, o := range changeOuts {
		if o.Address != wd.waddr {
			return fmt.Errorf("%s: change output pays %v", where, o.Address)
		}
		change = change.Add(o.Value)
	}
	if !sum.Equals(amount.Add(change)) {
		return fmt.Errorf("%s: Σ added inputs %v != amount %v + change %v", where, sum, amount, change)
	}
	wd.cs.Class("topup=ok-" + r.kind)
	if nUnconf > 0 {
		r.unconf = true
	}
	r.ids = append(r.ids, newIDs...)
	r.noteValues(v, newIDs)
	wd.reserve(newIDs, t0, t1, r.id)
	return nil
}

func (wd *world) opRelease(op Op) error {
	out := wd.outstanding(false)
	if len(out) == 0 {
		wd.cs.Class("release=nothing-outstanding")
		return nil
	}
	r := out[modInt(op.N, len(out))]
	wd.release(r)
	r.state = 1
	wd.cs.Class("release=" + r.kind)
	return nil
}

func (wd *world) opExpire(step int) error {
	if !wd.cfg.short() {
		return nil
	}
	var latest time.Time
	for _, r := range wd.res {
		if r.hi.After(latest) {
			latest = r.hi
		}
	}
	if len(wd.res) == 0 {
		wd.cs.Class("expire=nothing-reserved")
		return nil
	}
	if d := time.Until(latest); d > 0 {
		time.Sleep(d + time.Millisecond)
	}
	for time.Now().Before(latest.Add(time.Millisecond)) {
		time.Sleep(time.Millisecond)
	}
	wd.cs.Class("expire=slept-past-reservation")
	// the reservations are over by the clock; the audit that follows asserts
	// that their outputs are selectable again (lockState says lockNo once the
	// reading is past hi, the entries themselves can stay)
	return nil
}

// submit signs an outstanding request and hands it to the pool. The pool must
// accept when the request's inputs are still what they were when it was
// funded: unspent (or still unconfirmed), not spent by another pooled
// transaction, the transaction version allowed at the next height and — for
// v2 — the funding basis still on the best chain.
func (wd *world) opSubmit(op Op, step int) error {
	out := wd.outstanding(true)
	if len(out) == 0 {
		wd.cs.Class("submit=nothing-outstanding")
		return nil
	}
	r := out[modInt(op.N, len(out))]
	where := fmt.Sprintf("step %d submit(request #%d %s)", step, r.id, r.kind)
	snap, err := wd.snapshot()
	if err != nil {
		return err
	}
	must := true
	why := ""
	cross := false
	for _, id := range r.ids {
		if snap.P[id] {
			must, why = false, "input-spent-by-other-pool-txn"
		} else if u, ok := snap.chainU[id]; ok {
			if u.MaturityHeight > snap.cmTip.Height {
				must, why = false, "input-immature-after-reorg"
			} else if was, ok := r.vals[id]; ok && !was.Equals(u.SiacoinOutput.Value) {
				// the same output id carries another value on the chain the
				// manager is on now (a contract payout of another revision, a
				// siafund claim of another pool size): the wallet funded against a
				// branch that was reorged out, the transaction cannot balance
				must, why = false, "input-value-changed-by-reorg"
			}
		} else if _, ok := snap.E[id]; ok {
			if (r.kind == "v1") != (snap.creator[id] == 1) {
				cross = true
			}
		} else {
			must, why = false, "input-gone"
		}
	}
	if cross {
		// A v1 transaction cannot name a parent created by a pooled v2
		// transaction in one AddPoolTransactions set and vice versa: the pool
		// API has no mixed sets (and the manager's parent lookups are not meant
		// for it). Only reachable while both versions are valid. The request
		// will never be broadcast, so it is released.
		wd.cs.Excluded("submit:unconfirmed-parent-of-the-other-transaction-version")
		r.state = 3
		wd.release(r)
		return nil
	}
	var subErr error
	rebaseEphemeral := false
	switch r.kind {
	case "v1":
		if !wd.v1Allowed() {
			must, why = false, "v1-after-require-height"
		}
		if modInt(op.B, 3) == 1 {
			wd.cs.Class("submit=v1-explicit-covered-fields")
			wd.w.SignTransaction(&r.v1, r.toSignV1, wallet.ExplicitCoveredFields(r.v1))
		} else {
			wd.w.SignTransaction(&r.v1, r.toSignV1, types.CoveredFields{WholeTransaction: true})
		}
		set := append(wd.poolAncestorsV1(r.v1), r.v1)
		_, subErr = wd.cm.AddPoolTransactions(set)
	default:
		if !wd.v2Allowed() {
			must, why = false, "v2-before-allow-height"
		}
		if bi, ok := wd.cm.BestIndex(r.basis.Height); !ok || bi != r.basis {
			must, why = false, "basis-reorged-out"
		}
		rebaseEphemeral = r.unconf && r.basis != wd.cm.Tip()
		for i := range r.v2 {
			wd.w.SignV2Inputs(&r.v2[i], r.toSignV2[i])
		}
		basis, set := r.basis, r.v2
		path := modInt(op.B, 3)
		if len(r.v2) == 1 && wd.hasUnconfirmedInput(r, snap) && r.basis == wd.cm.Tip() {
			// the pool's transactions carry proofs for the tip, which is the basis
			set = append(wd.poolAncestorsV2(r.v2[0]), r.v2[0])
		} else if len(r.v2) == 1 && path == 1 && !r.unconf {
			// the manager's helper, for requests without unconfirmed parents
			basis, set, subErr = wd.cm.V2TransactionSet(r.basis, r.v2[0])
		}
		if subErr == nil {
			if path == 2 {
				wd.cs.Class("submit=via-wallet-broadcast")
				subErr = wd.w.BroadcastV2TransactionSet(basis, set)
				if subErr == nil {
					wd.bcast = append(wd.bcast, newBset(basis, set))
					if basis != wd.cm.Tip() {
						wd.cs.Class("broadcast=basis-behind-the-chain-tip")
					}
				}
			} else {
				_, subErr = wd.cm.AddV2PoolTransactions(basis, set)
			}
		}
	}
	if os.Getenv("VERIF_TRACE") != "" {
		fmt.Printf("TRACE   submit request #%d %s ids=%v basis=%v must=%v why=%q err=%v\n", r.id, r.kind, r.ids, r.basis, must, why, subErr)
	}
	if subErr == nil {
		r.state = 2
		wd.cs.Class("submit=accepted-" + r.kind)
		// every input must now be spent by the pool
		s2, err := wd.snapshot()
		if err != nil {
			return err
		}
		for _, id := range r.ids {
			if !s2.P[id] && must {
				return fmt.Errorf("%s: accepted, but input %v is not spent by the pool", where, id)
			} else if !s2.P[id] {
				// an identical transaction (same inputs and outputs, hence the same
				// id) was funded after a restart and is confirmed already: the
				// pool reports the set as known
				wd.cs.Class("submit=identical-transaction-already-confirmed")
				break
			}
		}
		return nil
	}
	r.state = 3
	wd.release(r) // "invalid or will never be broadcast"
	if must && rebaseEphemeral {
		// chain.Manager cannot move a set with an ephemeral (unconfirmed) input
		// across a block that does not confirm the parent: updateTxnProofs
		// treats the unassigned leaf index as "not in our chain", and
		// V2TransactionSet validates the pool's parents (proofs at the tip)
		// against the caller's older basis. That is the manager's rebase
		// contract (C13), not the wallet's selection.
		wd.cs.Excluded("submit:v2-request-with-unconfirmed-input-rebased-over-a-block")
		return nil
	}
	if !must {
		wd.cs.Class("submit=stale-" + why)
		return nil
	}
	return fmt.Errorf("%s: the signed transaction was rejected by the pool: %v", where, subErr)
}

// poolAncestorsV1 returns the pooled v1 transactions txn depends on
// (transitively), in pool order, which is a valid order by construction. The
// harness does not use Manager.UnconfirmedParents for this: it returns the
// ancestors in reversed discovery order, which puts a parent after its own
// child when txn spends outputs of both (outside C07).
func (wd *world) poolAncestorsV1(txn types.Transaction) []types.Transaction {
	pool := wd.cm.PoolTransactions()
	need := map[scID]bool{}
	for _, in := range txn.SiacoinInputs {
		need[in.ParentID] = true
	}
	keep := make([]bool, len(pool))
	for i := len(pool) - 1; i >= 0; i-- {
		for j := range pool[i].SiacoinOutputs {
			if need[pool[i].SiacoinOutputID(j)] {
				keep[i] = true
			}
		}
		if keep[i] {
			for _, in := range pool[i].SiacoinInputs {
				need[in.ParentID] = true
			}
		}
	}
	var out []types.Transaction
	for i, k := range keep {
		if k && pool[i].ID() != txn.ID() {
			out = append(out, pool[i])
		}
	}
	return out
}

func (wd *world) poolAncestorsV2(txn types.V2Transaction) []types.V2Transaction {
	pool := wd.cm.V2PoolTransactions()
	need := map[scID]bool{}
	for _, in := range txn.SiacoinInputs {
		need[in.Parent.ID] = true
	}
	keep := make([]bool, len(pool))
	for i := len(pool) - 1; i >= 0; i-- {
		txid := pool[i].ID()
		for j := range pool[i].SiacoinOutputs {
			if need[pool[i].SiacoinOutputID(txid, j)] {
				keep[i] = true
			}
		}
		if keep[i] {
			for _, in := range pool[i].SiacoinInputs {
				need[in.Parent.ID] = true
			}
		}
	}
	var out []types.V2Transaction
	for i, k := range keep {
		if k && pool[i].ID() != txn.ID() {
			out = append(out, pool[i])
		}
	}
	return out
}

func (wd *world) hasUnconfirmedInput(r *request, snap snapshot) bool {
	for _, id := range r.ids {
		if _, ok := snap.E[id]; ok {
			return true
		}
	}
	return false
}

func (wd *world) opRedistribute(op Op, step int) error {
	pre, err := wd.view(time.Now(), time.Now())
	if err != nil {
		return err
	}
	n := clampInt(op.N, 1, 15)
	sorted := sortedByValue(pre.S)
	var amount types.Currency
	switch modInt(op.A, 6) {
	case 0:
		amount = types.Siacoins(1)
	case 1:
		amount = pre.sumS.Div64(uint64(n + 1))
	case 2:
		amount = pre.sumS.Div64(uint64(n))
	case 3:
		if len(sorted) > 0 {
			amount = sorted[modInt(op.F, len(sorted))].SiacoinOutput.Value
		}
	case 4:
		amount = oneH
	default:
		amount = pre.sumS
	}
	if amount.IsZero() {
		amount = types.Siacoins(1) // zero-valued outputs are outside the domain
	}
	var feePerByte types.Currency
	switch modInt(op.B, 3) {
	case 1:
		feePerByte = oneH
	case 2:
		feePerByte = wd.w.RecommendedFee()
	}
	where := fmt.Sprintf("step %d Redistribute(%d, %v, %v)", step, n, amount, feePerByte)
	tB := time.Now() // the before/after comparison spans [tB, t2]
	before, _, err := wd.spendable()
	if err != nil {
		return fmt.Errorf("%s: %w", where, err)
	}
	t0 := time.Now()
	basis, txns, toSign, callErr := wd.w.Redistribute(n, amount, feePerByte)
	t1 := time.Now()
	v, err := wd.view(t0, t1)
	if err != nil {
		return err
	}
	if callErr != nil || len(txns) == 0 {
		if callErr != nil {
			wd.cs.Class("redistribute=error")
		} else {
			wd.cs.Class("redistribute=nothing-to-do")
		}
		after, _, err := wd.spendable()
		if err != nil {
			return fmt.Errorf("%s: %w", where, err)
		}
		if t2 := time.Now(); !wd.anyUndecidable(before, after, tB, t2) {
			if d := diffSets(after, before, v.snap, wd, t0, t2); d != "" {
				return fmt.Errorf("%s: the call produced nothing (err=%v) but SpendableOutputs changed: %s", where, callErr, d)
			}
		}
		return nil
	}
	if err := wd.checkBasis(where, basis, txns); err != nil {
		return err
	}
	if len(toSign) != len(txns) {
		return fmt.Errorf("%s: %d transactions, %d sign lists", where, len(txns), len(toSign))
	}
	req := &request{id: len(wd.reqs), kind: "redist", basis: basis, v2: txns, toSignV2: toSign}
	seen := map[scID]bool{}
	for ti, txn := range txns {
		var ids []scID
		for _, in := range txn.SiacoinInputs {
			ids = append(ids, in.Parent.ID)
		}
		if len(toSign[ti]) != len(ids) {
			return fmt.Errorf("%s: txn %d has %d inputs, %d indices to sign", where, ti, len(ids), len(toSign[ti]))
		}
		sum, _, err := wd.checkSelected(v, ids, false, t0, t1, seen)
		if err != nil {
			return fmt.Errorf("%s: txn %d: %w", where, ti, err)
		}
		var outSum types.Currency
		for _, o := range txn.SiacoinOutputs {
			if o.Address != wd.waddr {
				return fmt.Errorf("%s: txn %d pays %v", where, ti, o.Address)
			}
			outSum = outSum.Add(o.Value)
		}
		if !sum.Equals(outSum.Add(txn.MinerFee)) {
			return fmt.Errorf("%s: txn %d: Σ inputs %v != Σ outputs %v + fee %v", where, ti, sum, outSum, txn.MinerFee)
		}
		req.ids = append(req.ids, ids...)
	}
	wd.cs.Class("redistribute=ok")
	if len(txns) > 1 {
		wd.cs.Class("redistribute=multi-txn")
	}
	req.noteValues(v, req.ids)
	wd.reserve(req.ids, t0, t1, req.id)
	wd.reqs = append(wd.reqs, req)
	return nil
}

func (wd *world) opSplit(op Op, step int) error {
	pre, err := wd.view(time.Now(), time.Now())
	if err != nil {
		return err
	}
	n := clampInt(op.N, 0, 13)
	if op.B%4 != 0 {
		// stay inside the documented domain: 2 <= n <= defrag threshold
		n = max(n, 2)
		if wd.cfg.DefragThreshold >= 2 && n > wd.cfg.DefragThreshold {
			n = wd.cfg.DefragThreshold
		}
	}
	sorted := sortedByValue(pre.S)
	var minAmount types.Currency
	switch modInt(op.A, 6) {
	case 0:
		minAmount = oneH
	case 5:
		// zero: refused ("minAmount must be greater than zero") in raw mode
	case 1:
		minAmount = types.Siacoins(1)
	case 2:
		if len(sorted) > 0 {
			minAmount = sorted[0].SiacoinOutput.Value.Div64(uint64(n + 1))
		}
	case 3:
		if len(sorted) > 0 {
			minAmount = sorted[0].SiacoinOutput.Value
		}
	default:
		minAmount = types.Siacoins(100)
	}
	if minAmount.IsZero() && op.B%4 != 0 {
		minAmount = oneH
	}
	if n < 2 || minAmount.IsZero() {
		wd.cs.Class("split=argument-outside-the-domain")
	}
	where := fmt.Sprintf("step %d SplitUTXO(%d, %v)", step, n, minAmount)
	tB := time.Now() // the before/after comparison spans [tB, t2]
	before, _, err := wd.spendable()
	if err != nil {
		return fmt.Errorf("%s: %w", where, err)
	}
	poolBefore := len(wd.cm.V2PoolTransactions())
	tipBefore := wd.cm.Tip()
	t0 := time.Now()
	txn, callErr := wd.w.SplitUTXO(n, minAmount)
	t1 := time.Now()
	if callErr != nil || len(txn.SiacoinInputs) == 0 {
		if callErr != nil {
			wd.cs.Class("split=error")
			// the wallet signs its own split transaction: whatever else may
			// refuse the call, a transaction whose own signature does not
			// satisfy the wallet's spend policy is an invalid spend built by
			// the wallet
			if msg := callErr.Error(); strings.Contains(msg, "failed to broadcast split transaction") {
				wd.cs.Class("split=error:own-transaction-refused-by-the-pool")
				if os.Getenv("VERIF_SPLITDIAG") != "" {
					ts := wd.cm.TipState()
					fmt.Printf("SPLITDIAG lagging=%v h=%d allow=%d require=%d poolv1=%d poolv2=%d %s\n", wd.lagging(), ts.Index.Height, ts.Network.HardforkV2.AllowHeight, ts.Network.HardforkV2.RequireHeight, len(wd.cm.PoolTransactions()), len(wd.cm.V2PoolTransactions()), msg)
				}
				if strings.Contains(msg, "spend policy") || strings.Contains(msg, "signature") {
					return fmt.Errorf("%s: the wallet's own split transaction was refused for its signature: %v", where, callErr)
				}
			}
		} else {
			wd.cs.Class("split=nothing-to-do")
			if len(txn.SiacoinOutputs) != 0 {
				return fmt.Errorf("%s: returned a transaction without inputs but with outputs", where)
			}
		}
		snap, err := wd.snapshot()
		if err != nil {
			return err
		}
		after, _, err := wd.spendable()
		if err != nil {
			return fmt.Errorf("%s: %w", where, err)
		}
		if t2 := time.Now(); !wd.anyUndecidable(before, after, tB, t2) {
			if d := diffSets(after, before, snap, wd, t0, t2); d != "" {
				return fmt.Errorf("%s: the call produced nothing (err=%v) but SpendableOutputs changed: %s", where, callErr, d)
			}
		}
		if n := len(wd.cm.V2PoolTransactions()); n != poolBefore {
			return fmt.Errorf("%s: the call produced nothing (err=%v) but the pool went from %d to %d v2 transactions", where, callErr, poolBefore, n)
		}
		return nil
	}
	// The call has already broadcast the transaction, so its input is spent in
	// the pool now; judge the input against the state before the call.
	if len(txn.SiacoinInputs) != 1 {
		return fmt.Errorf("%s: %d inputs", where, len(txn.SiacoinInputs))
	}
	id := txn.SiacoinInputs[0].Parent.ID
	sum, _, err := wd.checkSelected(pre, []scID{id}, true, t0, t1, map[scID]bool{})
	if err != nil {
		return fmt.Errorf("%s: %w", where, err)
	}
	var outSum types.Currency
	for i, o := range txn.SiacoinOutputs {
		if o.Address != wd.waddr {
			return fmt.Errorf("%s: output %d pays %v", where, i, o.Address)
		}
		if o.Value.Cmp(minAmount) < 0 {
			return fmt.Errorf("%s: output %d is worth %v < minAmount", where, i, o.Value)
		}
		outSum = outSum.Add(o.Value)
	}
	if !sum.Equals(outSum.Add(txn.MinerFee)) {
		return fmt.Errorf("%s: input %v != Σ outputs %v + fee %v", where, sum, outSum, txn.MinerFee)
	}
	if _, ok := wd.cm.V2PoolTransaction(txn.ID()); !ok {
		return fmt.Errorf("%s: returned transaction %v is not in the pool", where, txn.ID())
	}
	wd.cs.Class("split=ok")
	if _, ok := pre.snap.E[id]; ok {
		wd.cs.Class("split=of-unconfirmed-output")
	}
	// SplitUTXO broadcasts through the wallet's own helper; the returned
	// transaction carries proofs for the manager's tip at the time of the call
	wd.bcast = append(wd.bcast, newBset(tipBefore, []types.V2Transaction{txn}))
	req := &request{id: len(wd.reqs), kind: "v2", v2: []types.V2Transaction{txn}, ids: []scID{id}, state: 2}
	wd.reserve(req.ids, t0, t1, req.id)
	wd.reqs = append(wd.reqs, req)
	return nil
}

func (wd *world) describeStoredSets() string {
	sets, _ := wd.ws.BroadcastedSets()
	var out []string
	for _, set := range sets {
		id := types.TransactionID{}
		if n := len(set.Transactions); n > 0 {
			id = set.Transactions[n-1].ID()
		}
		out = append(out, fmt.Sprintf("{basis %v, %d txns, last %v}", set.Basis, len(set.Transactions), id))
	}
	return fmt.Sprint(out)
}

// opRebroadcast lets the wallet's re-broadcast loop run once: the wallet is
// re-opened with a 1 ms debounce interval and a log observer (construction
// triggers one round), the harness waits until every stored set was either
// removed or logged as updated, then re-opens the wallet with the idle loop. A
// set the wallet broadcast itself that was in the pool before (so it is valid
// and unconfirmed at the tip) must still be stored and pooled afterwards.
func (wd *world) opRebroadcast(step int) error {
	before, _ := wd.ws.BroadcastedSets()
	if len(before) == 0 {
		wd.cs.Class("rebroadcast=nothing-stored")
		return nil
	}
	type liveSet struct {
		b  bset
		bi int
	}
	var live []liveSet
	for bi, b := range wd.bcast {
		if bi2, ok := wd.cm.BestIndex(b.basis.Height); !b.retired && b.storedIn(before) && !b.ephemeral && b.inPool(wd.cm) && ok && bi2 == b.basis {
			live = append(live, liveSet{b, bi})
		}
	}
	wd.close()
	core, logs := observer.New(zap.DebugLevel)
	var err error
	wd.w, err = wallet.NewSingleAddressWallet(wd.wkey, wd.cm, orderedStore{wd.ws, wd.cfg.Order}, wd.syncer,
		append(wd.cfg.options(), wallet.WithDebounceInterval(time.Millisecond), wallet.WithLogger(zap.New(core)))...)
	if err != nil {
		return fmt.Errorf("INFRA: %w", err)
	}
	wd.p, wd.tw = nil, nil
	deadline := time.Now().Add(3 * time.Second)
	done := false
	for !done && time.Now().Before(deadline) {
		after, _ := wd.ws.BroadcastedSets()
		handled := len(before) - len(after)
		handled += logs.FilterMessage("updated transaction set for rebroadcast").Len()
		if handled >= len(before) {
			done = true
		} else {
			time.Sleep(time.Millisecond)
		}
	}
	wd.w.Close()
	wd.w = nil
	if err := wd.openWallets(); err != nil {
		return fmt.Errorf("INFRA: reopen wallets: %w", err)
	}
	wd.res = map[scID]resv{} // a new wallet object: reservations are gone
	// sets that are gone now and were not live before have reached the
	// documented end of their life
	isLive := map[int]bool{}
	for _, l := range live {
		isLive[l.bi] = true
	}
	if now, _ := wd.ws.BroadcastedSets(); true {
		for bi := range wd.bcast {
			if !wd.bcast[bi].storedIn(now) && (!isLive[bi] || !done) {
				wd.bcast[bi].retired = true
			}
		}
	}
	if !done {
		wd.cs.Inconclusive("rebroadcast-round-not-observed-within-3s")
		return nil
	}
	wd.cs.Class("rebroadcast=round-completed")
	after, _ := wd.ws.BroadcastedSets()
	for _, l := range live {
		last := l.b.txns[len(l.b.txns)-1].ID()
		stored := false
		for _, set := range after {
			for _, t := range set.Transactions {
				if t.ID() == last {
					stored = true
				}
			}
		}
		if !l.b.inPool(wd.cm) {
			return fmt.Errorf("step %d rebroadcast: set %d (proofs at %v, tip %v) was in the pool before the re-broadcast round and is not afterwards", step, l.bi, l.b.basis, wd.cm.Tip())
		}
		if !stored {
			return fmt.Errorf("step %d rebroadcast: set %d (%d transactions, broadcast by the wallet with basis %v, chain tip %v) is unconfirmed and valid (it is in the pool), but the re-broadcast round deleted it from the store (stored now: %s)", step, l.bi, len(l.b.txns), l.b.basis, wd.cm.Tip(), wd.describeStoredSets())
		}
		wd.cs.Class("rebroadcast=live-set-kept")
		if l.b.basis != wd.cm.Tip() {
			wd.cs.Class("rebroadcast=live-set-with-older-basis-kept")
		}
	}
	return nil
}

func (wd *world) opRestart(op Op) error {
	wd.close()
	if op.B%2 == 1 {
		// a node restart: the pool is not persisted, the chain is
		if err := wd.dbs.Flush(); err != nil {
			return fmt.Errorf("INFRA: flush: %w", err)
		}
		dbs, tipState, err := chain.NewDBStore(wd.db, wd.net, wd.genesis, nil)
		if err != nil {
			return fmt.Errorf("INFRA: reopen chain store: %w", err)
		}
		wd.dbs = dbs
		wd.cm = chain.NewManager(dbs, tipState)
		wd.cs.Class("restart=node-and-wallet")
	} else {
		wd.cs.Class("restart=wallet-only")
	}
	if sets, _ := wd.ws.BroadcastedSets(); len(sets) > 0 {
		wd.cs.Class("restart=with-broadcast-sets")
	}
	if err := wd.openWallets(); err != nil {
		return fmt.Errorf("INFRA: reopen wallets: %w", err)
	}
	// "a restart that re-loads broadcast sets into the pool", judged by the
	// transactions themselves (not by what the store recorded about them): every
	// set the wallet broadcast itself whose inputs are still unspent on the best
	// chain must be in the new manager's pool once the wallet is constructed. If
	// it is not, the harness offers it with the basis its proofs really have; if
	// the pool takes it, the wallet should have brought it back.
	if op.B%2 == 1 {
		if err := wd.syncOthers(); err != nil {
			return err
		}
		snap, err := wd.snapshot()
		if err != nil {
			return err
		}
		for bi, b := range wd.bcast {
			switch {
			case b.retired:
				wd.cs.Class("restart=node:broadcast-set-retired-by-an-earlier-re-broadcast-round")
			case b.ephemeral:
				wd.cs.Class("restart=node:broadcast-set-with-unconfirmed-parent (not judged)")
			case !b.live(snap.chainU):
				wd.cs.Class("restart=node:broadcast-set-confirmed-or-dead")
			case b.inPool(wd.cm):
				wd.cs.Class("restart=node:live-broadcast-set-back-in-pool")
			default:
				if known, err := wd.cm.AddV2PoolTransactions(b.basis, b.txns); err == nil && !known && b.inPool(wd.cm) {
					return fmt.Errorf("restart: the wallet broadcast set %d (%d transactions, proofs at %v, chain tip now %v) through BroadcastV2TransactionSet, its inputs are unspent on the best chain and the pool accepts it, but it was not re-loaded into the pool by NewSingleAddressWallet (stored sets: %s)", bi, len(b.txns), b.basis, wd.cm.Tip(), wd.describeStoredSets())
				}
				wd.cs.Class("restart=node:live-broadcast-set-not-acceptable-to-the-pool")
			}
		}
	}
	// reservations live in memory only
	wd.res = map[scID]resv{}
	if wd.lagging() {
		wd.cs.Class("restart=while-wallet-lags")
	}
	if n := len(wd.cm.V2PoolTransactions()); n > 0 {
		wd.cs.Class("restart=v2-transactions-in-pool-afterwards")
		if op.B%2 == 1 {
			// the fresh manager's pool was empty: these come from the broadcast sets
			wd.cs.Class("restart=node:broadcast-sets-reloaded-into-pool")
		}
	}
	return wd.syncOthers()
}

// ---------------------------------------------------------------- run

func runC07(c C07Case, cs *kit.CaseStats) error {
	wd, err := newWorld(c.Config, cs)
	if err != nil {
		return fmt.Errorf("INFRA: %w", err)
	}
	defer wd.close()
	cs.Classf("era=%d", modInt(c.Config.Era, 4))
	if c.Config.short() {
		cs.Classf("reservation=%v", c.Config.reservation())
	} else {
		cs.Class("reservation=3h")
	}
	cs.Classf("wallet-key=%d", wd.wactor)
	if c.Config.nonDefaultDefrag() {
		cs.Class("defrag-config=non-default")
	} else {
		cs.Class("defrag-config=default")
	}
	if err := wd.audit("initial state"); err != nil {
		return err
	}
	expires := 0
	for i, op := range c.Ops {
		var err error
		switch op.K {
		case "mine":
			err = wd.opMine(op)
		case "pay":
			err = wd.opPay(op)
		case "fund":
			nreq := len(wd.reqs)
			err = wd.opFund(op, i)
			if err == nil && op.Now && len(wd.reqs) == nreq+1 && !wd.reqs[nreq].noSubmit {
				cs.Class("fund=submitted-at-once")
				// the newest outstanding request is the last one in the list
				err = wd.opSubmit(Op{K: "submit", N: len(wd.outstanding(true)) - 1, B: 2 - op.N%2}, i)
			}
		case "release":
			err = wd.opRelease(op)
		case "topup":
			err = wd.opTopUp(op, i)
		case "rebroadcast":
			err = wd.opRebroadcast(i)
		case "submit":
			err = wd.opSubmit(op, i)
		case "redist":
			nreq := len(wd.reqs)
			err = wd.opRedistribute(op, i)
			if err == nil && op.Now && len(wd.reqs) == nreq+1 {
				cs.Class("redistribute=submitted-at-once")
				err = wd.opSubmit(Op{K: "submit", N: len(wd.outstanding(true)) - 1, B: op.F}, i)
			}
		case "split":
			err = wd.opSplit(op, i)
		case "reorg":
			err = wd.opReorg(op)
		case "restart":
			err = wd.opRestart(op)
		case "expire":
			if expires++; expires <= 3 {
				err = wd.opExpire(i)
			}
		case "sync":
			if wd.lagging() {
				cs.Class("sync=wallet-catches-up")
			}
			if op.N > 0 && wd.lagging() {
				err = wd.syncWalletPartial(op.N)
			} else {
				err = wd.syncWallet()
			}
		default:
			continue
		}
		cs.Class("op=" + op.K)
		if os.Getenv("VERIF_TRACE") != "" {
			fmt.Printf("TRACE step %d %+v -> err=%v tip=%v pool=%d/%d reqs=%d reserved=%d\n", i, op, err, wd.cm.Tip(), len(wd.cm.PoolTransactions()), len(wd.cm.V2PoolTransactions()), len(wd.reqs), len(wd.res))
		}
		if err != nil {
			return err
		}
		if err := wd.audit(fmt.Sprintf("after step %d (%s)", i, op.K)); err != nil {
			return err
		}
	}
	if wd.lagging() {
		// every case ends with the wallet at the manager's tip and a full audit
		if err := wd.syncWallet(); err != nil {
			return err
		}
		if err := wd.audit("after the final sync"); err != nil {
			return err
		}
	}
	if wd.feat.all4 || wd.feat.defragRan {
		cs.NonTrivial()
	}
	return nil
}

var c07Prop = kit.Prop[C07Case]{
	ID:   "C07",
	Rule: "stateful machine over one SingleAddressWallet + chain.Manager + surviving store: drawn wallet options (defrag threshold 0..40, max inputs for defrag 1..100, max defrag outputs 0..20, reservation 50 ms / 3 h) × four hardfork regimes × ≤ 25 ops (mine to wallet/other, multi-output payments, FundTransaction/FundV2Transaction with amounts {0, 1 H, fraction, exactly spendable, +1, with unconfirmed, value of one output}, Redistribute, SplitUTXO, ReleaseInputs, sign+submit three ways, reorg 1..4 deep — a quarter of the mine/reorg ops do not feed the wallet, which then works from its own older tip (possibly on a stale branch) until a later chain op or a sync op —, wallet/node restart, sleep past a 50 ms reservation). After every call the per-input oracle (owned, in the store's unspent set, mature, not pool-spent, not reserved in the harness' own reservation model, not repeated), conservation, error ⇒ SpendableOutputs unchanged, pool acceptance of the signed result; after every step Balance().Spendable = Σ SpendableOutputs() = model = largest amount FundTransaction(…, false) funds (exact amount funds and is released, one hasting more fails with ErrNotEnoughFunds). Non-trivial = some audited state had simultaneously a reserved, a pool-spent, an immature and an unconfirmed output, or a non-default defrag configuration whose defrag branch ran; distinct by hash of the case.",
	Assumptions: []string{
		"the wallet does not subscribe itself; the harness plays the integrator (as the repository's syncDB helper does) and feeds it either at once or, for lagging chain ops, later. While it lags: inputs are judged against the wallet's own store and tip, the returned basis must be an index at which the inputs' proofs verify, pool acceptance is required iff the inputs are unspent at the manager's tip according to a second, always-fed store of the same address; Balance (which judges maturity at the manager's height) is only compared once the wallet has caught up",
		"testutil.EphemeralWalletStore is the store (the repository's reference implementation); the unspent set it reports is the ground truth for 'unspent on chain', cross-checked by pool acceptance of every signed result",
		"chain.Manager's pool is trusted for what is pooled (its own contract is C05/C14)",
		"the re-broadcast loop is kept idle with WithDebounceInterval(1h); re-loading of broadcast sets at construction is exercised",
		"with the 50 ms reservation the model knows each expiry only up to the duration of the reserving call; verdicts that would depend on an undecidable reservation are skipped and counted",
		"a funded transaction whose unconfirmed parent is of the other transaction version cannot be handed to the pool in one set (no mixed-version sets in the pool API); counted as excluded",
		"zero-valued outputs and ReleaseInputs of already broadcast transactions are outside the documented domain and not generated",
	},
	Gen: genC07,
	Run: runC07,
}

func TestC07(t *testing.T) { c07Prop.Main(t) }
