package pwalletf

import (
	"fmt"
	"testing"

	"verif/kit"
)

func TestDbg(t *testing.T) {
	c, err := kit.LoadReplay[C07Case]("/tmp/wf-cases/dbg.json")
	if err != nil {
		t.Fatal(err)
	}
	cs := &kit.CaseStats{}
	wd, _ := newWorld(c.Config, cs)
	for _, op := range c.Ops {
		wd.opMine(op)
	}
	_, utxos, _ := wd.ws.UnspentSiacoinElements()
	for _, u := range utxos {
		fmt.Println(u.ID, u.SiacoinOutput.Value.ExactString(), u.MaturityHeight)
	}
}
