// Package refl is the reference ledger: the full element state of one chain
// (unspent siacoin / siafund / v1 contract / v2 contract elements with current
// Merkle proofs, chain-index elements, per-height v1 expiration lists) derived
// from go.sia.tech/core only. It does not use any code of the repository under
// test.
package refl

import (
	"bytes"
	"fmt"
	"sort"
	"time"

	"go.sia.tech/core/consensus"
	"go.sia.tech/core/types"
)

// Ledger is an immutable-by-copy value: Apply returns a new Ledger.
type Ledger struct {
	State  consensus.State
	Parent *Ledger
	Block  types.Block // the block that produced this ledger (zero for pre-genesis)
	// Supplement is the v1 supplement the block was validated and applied with.
	Supplement consensus.V1BlockSupplement
	// FCDiffs are the v1 contract diffs of Block, in application order.
	FCDiffs []consensus.FileContractElementDiff

	SCE   map[types.SiacoinOutputID]types.SiacoinElement
	SFE   map[types.SiafundOutputID]types.SiafundElement
	FCE   map[types.FileContractID]types.FileContractElement
	V2FCE map[types.FileContractID]types.V2FileContractElement
	// CIE holds the chain index elements of this chain by height (only
	// heights whose element exists in the accumulator).
	CIE map[uint64]types.ChainIndexElement
	// Spent holds the state elements (leaf index and proof at this ledger) of
	// the siacoin and siafund elements this chain created and spent: their
	// leaves stay in the accumulator with the spent flag (TrackSpent is set by
	// Genesis).
	Spent      map[types.Hash256]types.StateElement
	TrackSpent bool
	// Expiring lists v1 contract ids by WindowEnd in the order a node that saw
	// exactly this chain linearly keeps them (append on create, swap-remove on
	// removal).
	Expiring map[uint64][]types.FileContractID
	// UsedWindowEnds records every WindowEnd any v1 contract of this chain
	// ever had (used by generators that want unique windows).
	UsedWindowEnds map[uint64]bool

	genesisTimestamp time.Time
}

// Height returns the height of the ledger's tip.
func (l *Ledger) Height() uint64 { return l.State.Index.Height }

// Index returns the tip index.
func (l *Ledger) Index() types.ChainIndex { return l.State.Index }

// Genesis creates the ledger after applying the genesis block.
func Genesis(n *consensus.Network, genesis types.Block) *Ledger {
	pre := &Ledger{
		State: n.GenesisState(),
		SCE:   map[types.SiacoinOutputID]types.SiacoinElement{}, SFE: map[types.SiafundOutputID]types.SiafundElement{},
		FCE: map[types.FileContractID]types.FileContractElement{}, V2FCE: map[types.FileContractID]types.V2FileContractElement{},
		CIE: map[uint64]types.ChainIndexElement{}, Expiring: map[uint64][]types.FileContractID{}, UsedWindowEnds: map[uint64]bool{},
		genesisTimestamp: genesis.Timestamp,
		TrackSpent:       true, Spent: map[types.Hash256]types.StateElement{},
	}
	bs := consensus.V1BlockSupplement{Transactions: make([]consensus.V1TransactionSupplement, len(genesis.Transactions))}
	return pre.applyUnchecked(genesis, bs, time.Time{})
}

// AncestorTimestamp mirrors the documented rule for the difficulty
// adjustment's target timestamp: irrelevant (zero) above the Oak hardfork
// height, otherwise the timestamp of the ancestor AncestorDepth blocks back
// (genesis for the short chains explored here).
func (l *Ledger) AncestorTimestamp() time.Time {
	if l.State.Index.Height > l.State.Network.HardforkOak.Height {
		return time.Time{}
	}
	depth := l.State.AncestorDepth()
	a := l
	for i := uint64(0); i < depth && a.Parent != nil && a.Parent.Parent != nil; i++ {
		a = a.Parent
	}
	return a.Block.Timestamp
}

// AncestorAt returns the ledger of this chain at the given height.
func (l *Ledger) AncestorAt(height uint64) *Ledger {
	a := l
	for a != nil && a.Height() > height {
		a = a.Parent
	}
	if a == nil || a.Height() != height || a.Parent == nil && height != 0 {
		return nil
	}
	return a
}

// Chain returns the blocks from height 1 (genesis excluded) to the tip.
func (l *Ledger) Chain() []types.Block {
	var out []types.Block
	for a := l; a != nil && a.Parent != nil && a.Parent.Parent != nil; a = a.Parent {
		out = append(out, a.Block)
	}
	for i, j := 0, len(out)-1; i < j; i, j = i+1, j-1 {
		out[i], out[j] = out[j], out[i]
	}
	return out
}

// HasSupplement reports whether the child of this ledger has a v1 supplement.
// The rule is core's, not the chain store's: consensus demands an empty
// supplement for every block whose own height (the child height) is at or
// above the v2 require height, so a v1 contract whose window ends exactly at
// the require height (or later) is never expired.
func (l *Ledger) HasSupplement() bool {
	return l.State.Index.Height+1 < l.State.Network.HardforkV2.RequireHeight
}

// SupplementFor builds the v1 supplement of block b on top of l. order, if
// non-nil, overrides the order of the expiring contracts (it must be a
// permutation of the ledger's list).
func (l *Ledger) SupplementFor(b types.Block, order []types.FileContractID) (bs consensus.V1BlockSupplement) {
	bs.Transactions = make([]consensus.V1TransactionSupplement, len(b.Transactions))
	if !l.HasSupplement() {
		return bs
	}
	for i, txn := range b.Transactions {
		bs.Transactions[i] = l.SupplementForTxn(txn)
	}
	ids := l.Expiring[l.Height()+1]
	if order != nil {
		ids = order
	}
	for _, id := range ids {
		if fce, ok := l.FCE[id]; ok {
			bs.ExpiringFileContracts = append(bs.ExpiringFileContracts, copyFCE(fce))
		}
	}
	return bs
}

// SupplementForTxn builds the v1 supplement of one transaction on top of l.
func (l *Ledger) SupplementForTxn(txn types.Transaction) (ts consensus.V1TransactionSupplement) {
	// (tip-based on purpose: at tip = require height - 1 every v1 transaction is
	// invalid whatever its supplement, so nothing may be demanded of the store
	// there beyond what it documents; the block rule above is core's)
	if l.State.Index.Height >= l.State.Network.HardforkV2.RequireHeight {
		return
	}
	for _, sci := range txn.SiacoinInputs {
		if e, ok := l.SCE[sci.ParentID]; ok {
			ts.SiacoinInputs = append(ts.SiacoinInputs, copySCE(e))
		}
	}
	for _, sfi := range txn.SiafundInputs {
		if e, ok := l.SFE[sfi.ParentID]; ok {
			ts.SiafundInputs = append(ts.SiafundInputs, copySFE(e))
		}
	}
	for _, fcr := range txn.FileContractRevisions {
		if e, ok := l.FCE[fcr.ParentID]; ok {
			ts.RevisedFileContracts = append(ts.RevisedFileContracts, copyFCE(e))
		}
	}
	for _, sp := range txn.StorageProofs {
		if e, ok := l.FCE[sp.ParentID]; ok {
			if e.FileContract.WindowStart == 0 {
				continue
			}
			if a := l.AncestorAt(e.FileContract.WindowStart - 1); a != nil {
				ts.StorageProofs = append(ts.StorageProofs, consensus.V1StorageProofSupplement{FileContract: copyFCE(e), WindowID: a.State.Index.ID})
			}
		}
	}
	return
}

// Apply validates b on top of l with core and returns the child ledger, or the
// validation error. order optionally overrides the expiring-contract order.
func (l *Ledger) Apply(b types.Block, order []types.FileContractID) (child *Ledger, err error) {
	defer func() {
		if r := recover(); r != nil {
			child, err = nil, fmt.Errorf("core panicked while validating/applying: %v", r)
		}
	}()
	if b.ParentID != l.State.Index.ID {
		return nil, fmt.Errorf("wrong parent")
	}
	bs := l.SupplementFor(b, order)
	if err := consensus.ValidateBlock(l.State, b, bs); err != nil {
		return nil, err
	}
	return l.applyUnchecked(b, bs, l.AncestorTimestamp()), nil
}

func (l *Ledger) applyUnchecked(b types.Block, bs consensus.V1BlockSupplement, ts time.Time) *Ledger {
	cs, cau := consensus.ApplyBlock(l.State, b, bs, ts)
	c := &Ledger{
		State: cs, Parent: l, Block: b, Supplement: bs,
		SCE:      make(map[types.SiacoinOutputID]types.SiacoinElement, len(l.SCE)+4),
		SFE:      make(map[types.SiafundOutputID]types.SiafundElement, len(l.SFE)+1),
		FCE:      make(map[types.FileContractID]types.FileContractElement, len(l.FCE)+1),
		V2FCE:    make(map[types.FileContractID]types.V2FileContractElement, len(l.V2FCE)+1),
		CIE:      make(map[uint64]types.ChainIndexElement, len(l.CIE)+1),
		Expiring: make(map[uint64][]types.FileContractID, len(l.Expiring)), UsedWindowEnds: make(map[uint64]bool, len(l.UsedWindowEnds)),
		genesisTimestamp: l.genesisTimestamp, TrackSpent: l.TrackSpent,
	}
	if l.TrackSpent {
		c.Spent = make(map[types.Hash256]types.StateElement, len(l.Spent)+2)
		for id, se := range l.Spent {
			se = se.Copy()
			cau.UpdateElementProof(&se)
			c.Spent[id] = se
		}
	}
	// carry over existing elements with proofs moved to the new accumulator
	for id, e := range l.SCE {
		e = copySCE(e)
		cau.UpdateElementProof(&e.StateElement)
		c.SCE[id] = e
	}
	for id, e := range l.SFE {
		e = copySFE(e)
		cau.UpdateElementProof(&e.StateElement)
		c.SFE[id] = e
	}
	for id, e := range l.FCE {
		e = copyFCE(e)
		cau.UpdateElementProof(&e.StateElement)
		c.FCE[id] = e
	}
	for id, e := range l.V2FCE {
		e = copyV2FCE(e)
		cau.UpdateElementProof(&e.StateElement)
		c.V2FCE[id] = e
	}
	for h, e := range l.CIE {
		e = e.Copy()
		cau.UpdateElementProof(&e.StateElement)
		c.CIE[h] = e
	}
	for h, ids := range l.Expiring {
		c.Expiring[h] = append([]types.FileContractID(nil), ids...)
	}
	for h := range l.UsedWindowEnds {
		c.UsedWindowEnds[h] = true
	}
	// apply the diffs
	for _, d := range cau.SiacoinElementDiffs() {
		switch {
		case d.Created && d.Spent:
			if c.TrackSpent {
				c.Spent[types.Hash256(d.SiacoinElement.ID)] = d.SiacoinElement.StateElement.Copy()
			}
		case d.Spent:
			if e, ok := c.SCE[d.SiacoinElement.ID]; ok && c.TrackSpent {
				c.Spent[types.Hash256(d.SiacoinElement.ID)] = e.StateElement.Copy()
			}
			delete(c.SCE, d.SiacoinElement.ID)
		default:
			c.SCE[d.SiacoinElement.ID] = copySCE(d.SiacoinElement)
		}
	}
	for _, d := range cau.SiafundElementDiffs() {
		switch {
		case d.Created && d.Spent:
			if c.TrackSpent {
				c.Spent[types.Hash256(d.SiafundElement.ID)] = d.SiafundElement.StateElement.Copy()
			}
		case d.Spent:
			if e, ok := c.SFE[d.SiafundElement.ID]; ok && c.TrackSpent {
				c.Spent[types.Hash256(d.SiafundElement.ID)] = e.StateElement.Copy()
			}
			delete(c.SFE, d.SiafundElement.ID)
		default:
			c.SFE[d.SiafundElement.ID] = copySFE(d.SiafundElement)
		}
	}
	for _, d := range cau.FileContractElementDiffs() {
		c.FCDiffs = append(c.FCDiffs, copyFCDiff(d))
		fce := d.FileContractElement
		switch {
		case d.Created && d.Resolved:
		case d.Resolved:
			delete(c.FCE, fce.ID)
			c.expRemove(fce.ID, fce.FileContract.WindowEnd)
		case d.Revision != nil:
			rev := copyFCE(fce)
			rev.FileContract = *d.Revision
			c.FCE[fce.ID] = rev
			if d.Revision.WindowEnd != fce.FileContract.WindowEnd {
				c.expRemove(fce.ID, fce.FileContract.WindowEnd)
				c.Expiring[d.Revision.WindowEnd] = append(c.Expiring[d.Revision.WindowEnd], fce.ID)
				c.UsedWindowEnds[d.Revision.WindowEnd] = true
			}
		default:
			c.FCE[fce.ID] = copyFCE(fce)
			c.Expiring[fce.FileContract.WindowEnd] = append(c.Expiring[fce.FileContract.WindowEnd], fce.ID)
			c.UsedWindowEnds[fce.FileContract.WindowEnd] = true
		}
	}
	for _, d := range cau.V2FileContractElementDiffs() {
		fce := d.V2FileContractElement
		switch {
		case d.Created && d.Resolution != nil:
		case d.Resolution != nil:
			delete(c.V2FCE, fce.ID)
		case d.Revision != nil:
			rev := copyV2FCE(fce)
			rev.V2FileContract = *d.Revision
			c.V2FCE[fce.ID] = rev
		default:
			c.V2FCE[fce.ID] = copyV2FCE(fce)
		}
	}
	cie := cau.ChainIndexElement()
	c.CIE[cs.Index.Height] = cie.Copy()
	return c
}

func (l *Ledger) expRemove(id types.FileContractID, windowEnd uint64) {
	ids := l.Expiring[windowEnd]
	for i := range ids {
		if ids[i] == id {
			ids[i] = ids[len(ids)-1]
			ids = ids[:len(ids)-1]
			break
		}
	}
	if len(ids) == 0 {
		delete(l.Expiring, windowEnd)
	} else {
		l.Expiring[windowEnd] = ids
	}
}

func copySCE(e types.SiacoinElement) types.SiacoinElement                 { return e.Copy() }
func copySFE(e types.SiafundElement) types.SiafundElement                 { return e.Copy() }
func copyFCE(e types.FileContractElement) types.FileContractElement       { return e.Copy() }
func copyV2FCE(e types.V2FileContractElement) types.V2FileContractElement { return e.Copy() }

func copyFCDiff(d consensus.FileContractElementDiff) consensus.FileContractElementDiff {
	out := d
	out.FileContractElement = d.FileContractElement.Copy()
	if d.Revision != nil {
		r := *d.Revision
		r.ValidProofOutputs = append([]types.SiacoinOutput(nil), r.ValidProofOutputs...)
		r.MissedProofOutputs = append([]types.SiacoinOutput(nil), r.MissedProofOutputs...)
		out.Revision = &r
	}
	return out
}

// Enc returns the canonical binary encoding of an encodable value.
func Enc(v types.EncoderTo) []byte {
	var buf bytes.Buffer
	e := types.NewEncoder(&buf)
	v.EncodeTo(e)
	e.Flush()
	return buf.Bytes()
}

// StateBytes encodes a consensus state canonically.
func StateBytes(cs consensus.State) []byte { return Enc(cs) }

// SortedSCIDs returns the ids of the unspent siacoin elements in id order.
func (l *Ledger) SortedSCIDs() []types.SiacoinOutputID {
	ids := make([]types.SiacoinOutputID, 0, len(l.SCE))
	for id := range l.SCE {
		ids = append(ids, id)
	}
	sort.Slice(ids, func(i, j int) bool { return bytes.Compare(ids[i][:], ids[j][:]) < 0 })
	return ids
}

// SortedSFIDs returns the ids of the unspent siafund elements in id order.
func (l *Ledger) SortedSFIDs() []types.SiafundOutputID {
	ids := make([]types.SiafundOutputID, 0, len(l.SFE))
	for id := range l.SFE {
		ids = append(ids, id)
	}
	sort.Slice(ids, func(i, j int) bool { return bytes.Compare(ids[i][:], ids[j][:]) < 0 })
	return ids
}

// SortedFCIDs returns the ids of the live v1 contracts in id order.
func (l *Ledger) SortedFCIDs() []types.FileContractID {
	ids := make([]types.FileContractID, 0, len(l.FCE))
	for id := range l.FCE {
		ids = append(ids, id)
	}
	sort.Slice(ids, func(i, j int) bool { return bytes.Compare(ids[i][:], ids[j][:]) < 0 })
	return ids
}

// SortedV2FCIDs returns the ids of the live v2 contracts in id order.
func (l *Ledger) SortedV2FCIDs() []types.FileContractID {
	ids := make([]types.FileContractID, 0, len(l.V2FCE))
	for id := range l.V2FCE {
		ids = append(ids, id)
	}
	sort.Slice(ids, func(i, j int) bool { return bytes.Compare(ids[i][:], ids[j][:]) < 0 })
	return ids
}

// VerifyProofs checks every stored element against the ledger's own
// accumulator through core's public v2 element validation (self-check of the
// reference; used by the harness' own tests).
func (l *Ledger) VerifyProofs() error {
	var txn types.V2Transaction
	for _, id := range l.SortedSCIDs() {
		txn.SiacoinInputs = append(txn.SiacoinInputs, types.V2SiacoinInput{Parent: copySCE(l.SCE[id])})
	}
	for _, id := range l.SortedSFIDs() {
		txn.SiafundInputs = append(txn.SiafundInputs, types.V2SiafundInput{Parent: copySFE(l.SFE[id])})
	}
	for _, id := range l.SortedV2FCIDs() {
		txn.FileContractRevisions = append(txn.FileContractRevisions, types.V2FileContractRevision{Parent: copyV2FCE(l.V2FCE[id])})
	}
	return l.State.Elements.ValidateTransactionElements(txn)
}
