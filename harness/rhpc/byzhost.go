package rhpc

import (
	"bytes"
	"errors"
	"fmt"
	"io"
	"net"
	"sort"
	"sync"
	"time"

	"go.sia.tech/core/consensus"
	proto4 "go.sia.tech/core/rhp/v4"
	"go.sia.tech/core/types"
)

// Mut is the single mutation a ByzHost applies: to host->renter message Msg
// of the exchange (0 = first response, 1 = third response; for read 1 = the
// data stream) a change of family Kind with small variant selectors A and B.
// The rest of the exchange is carried on consistently with what was sent (a
// cheating host signs what it claimed), so only the renter's own checks stand
// between the lie and a nil error.
type Mut struct {
	Msg  int    `json:"msg"`
	Kind string `json:"kind,omitempty"`
	A    int    `json:"a,omitempty"`
	B    int    `json:"b,omitempty"`
}

// BContract is the host's ground truth about one contract.
type BContract struct {
	Rev   types.V2FileContract
	Roots []types.Hash256
}

// SentMsg is one host->renter message as it went on the wire.
type SentMsg struct {
	Index  int
	Honest []byte
	Wire   []byte
	Obj    any
}

// ByzHost is a scripted RHP4 host. It answers every RPC from ground truth and
// applies at most one mutation.
type ByzHost struct {
	Key    types.PrivateKey
	CS     consensus.State
	Prices proto4.HostPrices
	Addr   types.Address

	Sectors   map[types.Hash256]*Sector
	Contracts map[types.FileContractID]*BContract
	Balances  map[proto4.Account]types.Currency
	Pools     map[proto4.Account]types.Currency

	// SignKey, when set, signs revisions, contracts and renewals instead of Key
	// (a host whose session identity is not the contract's host key). Key stays
	// the key requests are validated against (the price table's signer).
	SignKey types.PrivateKey
	// ContractKey, when set, is the host key put into newly formed contracts.
	ContractKey types.PublicKey

	M Mut
	// PlayAlong makes the host skip every request validation and answer an
	// impossible request (range outside the contract, zero length, empty list)
	// with whatever would make the call look successful: the right number of
	// roots, an empty or clipped proof, a genuine signature over the revision
	// the arguments imply.
	PlayAlong bool
	T         *Transport
	// RawMutate, when set, perturbs the encoded bytes of message idx (fuzzing).
	RawMutate func(idx int, wire []byte) []byte

	mu       sync.Mutex
	Requests []any
	Sent     []SentMsg
	Applied  bool   // the mutation's message was reached
	Differs  bool   // the mutated bytes differ from the honest ones
	Harness  string // harness-side problem (unknown kind, ...)
	GenericN int    // number of leaves / slices the generic mutation could choose from
	Greedy   bool   // the host counter-signed a revision other than the one it expected

	done chan struct{}
}

var errStop = errors.New("byzhost: stop")

// SignPrices returns prices signed by key, valid for an hour.
func SignPrices(key types.PrivateKey, p proto4.HostPrices, tipHeight uint64) proto4.HostPrices {
	p.TipHeight = tipHeight
	p.ValidUntil = time.Now().Add(time.Hour).Truncate(time.Second)
	p.Signature = key.SignHash(p.SigHash())
	return p
}

// NewByzHost creates a host with empty ground truth and starts serving.
func NewByzHost(key types.PrivateKey, cs consensus.State, prices proto4.HostPrices, m Mut) *ByzHost {
	h := &ByzHost{
		Key: key, CS: cs, Prices: prices, Addr: AddrOf(key),
		Sectors:   map[types.Hash256]*Sector{},
		Contracts: map[types.FileContractID]*BContract{},
		Balances:  map[proto4.Account]types.Currency{},
		Pools:     map[proto4.Account]types.Currency{},
		M:         m,
		T:         NewTransport(key.PublicKey()),
		done:      make(chan struct{}),
	}
	go h.serve()
	return h
}

// Close stops the host and waits for the accept loop.
func (h *ByzHost) Close() {
	h.T.Close()
	<-h.done
}

func (h *ByzHost) serve() {
	defer close(h.done)
	for {
		s, err := h.T.AcceptStream()
		if err != nil {
			return
		}
		go func() {
			defer s.Close()
			defer func() {
				if r := recover(); r != nil {
					h.harness(fmt.Sprintf("ByzHost handler panic: %v", r))
				}
			}()
			// byte-level perturbation can leave both sides waiting for bytes
			// that never come; the host then gives up quickly and closes
			if h.RawMutate != nil {
				s.SetDeadline(time.Now().Add(400 * time.Millisecond))
			} else {
				s.SetDeadline(time.Now().Add(30 * time.Second))
			}
			h.handle(s)
		}()
	}
}

func (h *ByzHost) harness(msg string) {
	h.mu.Lock()
	if h.Harness == "" {
		h.Harness = msg
	}
	h.mu.Unlock()
}

// greedy models a host that counter-signs whatever the renter actually
// signed as long as it pays the host at least as much: when the renter's
// signature does not verify over the revision the host expects, the host looks
// for the revision it does verify over among plausible alternatives (the same
// RPC priced for other counts / amounts) and signs that one. A renter that
// computes its payment from the wrong arguments therefore still "succeeds".
func (h *ByzHost) greedy(prev types.V2FileContract, sig types.Signature, expected types.V2FileContract, candidates func() []types.V2FileContract) types.V2FileContract {
	verifies := func(fc types.V2FileContract) bool {
		return prev.RenterPublicKey.VerifyHash(h.CS.ContractSigHash(fc), sig)
	}
	if sig == (types.Signature{}) || verifies(expected) {
		return expected
	}
	for _, fc := range candidates() {
		if fc.HostOutput.Value.Cmp(expected.HostOutput.Value) >= 0 && verifies(fc) {
			h.mu.Lock()
			h.Greedy = true
			h.mu.Unlock()
			return fc
		}
	}
	return expected
}

// contractKey is the host key of contracts this host forms.
func (h *ByzHost) contractKey() types.PublicKey {
	if h.ContractKey != (types.PublicKey{}) {
		return h.ContractKey
	}
	return h.Key.PublicKey()
}

func (h *ByzHost) signer() types.PrivateKey {
	if h.SignKey != nil {
		return h.SignKey
	}
	return h.Key
}

func (h *ByzHost) at(idx int) bool { return h.M.Kind != "" && h.M.Msg == idx }

// honest reports whether this host applies no mutation at all; only then does
// it commit state changes (before the final message goes out, so that the next
// request of the same client already sees them).
func (h *ByzHost) honest() bool { return h.M.Kind == "" && h.RawMutate == nil }

func encodeResp(o proto4.Object) []byte {
	var b bytes.Buffer
	if err := proto4.WriteResponse(&b, o); err != nil {
		panic(err)
	}
	return b.Bytes()
}

func (h *ByzHost) record(idx int, honest, wire []byte, obj any, applied bool) {
	h.mu.Lock()
	h.Sent = append(h.Sent, SentMsg{Index: idx, Honest: honest, Wire: wire, Obj: obj})
	if applied {
		h.Applied = true
		if !bytes.Equal(honest, wire) {
			h.Differs = true
		}
	}
	h.mu.Unlock()
}

// emit sends host->renter message idx. mutate is called with the mutation
// family when this is the message to corrupt; it changes msg (and whatever
// continuation state it closes over) in place and reports whether it knows
// the family.
func (h *ByzHost) emit(s net.Conn, idx int, msg proto4.Object, mutate func(kind string) bool) error {
	honest := encodeResp(msg)
	wire := honest
	applied := false
	if h.at(idx) {
		applied = true
		switch h.M.Kind {
		case "rpc-error":
			wire = encodeResp(&proto4.RPCError{Code: proto4.ErrorCodeHostError, Description: "scripted failure"})
		case "close":
			h.record(idx, honest, nil, nil, true)
			return errStop
		case "stall":
			// neither an answer nor an end of stream: the host just sits there
			// until the renter gives up and closes
			h.record(idx, honest, nil, nil, true)
			s.SetDeadline(time.Now().Add(60 * time.Second))
			io.Copy(io.Discard, s)
			return errStop
		case "trunc-bytes":
			// the host sends only a prefix of the encoded message and hangs up
			cut := pmod(h.M.A, len(honest))
			h.record(idx, honest, honest[:cut], nil, true)
			s.Write(honest[:cut])
			return errStop
		default:
			if IsGeneric(h.M.Kind) {
				n := genericMutate(msg, h.M.Kind, h.M.A, h.M.B)
				h.mu.Lock()
				h.GenericN = n
				h.mu.Unlock()
			} else if mutate == nil || !mutate(h.M.Kind) {
				h.harness(fmt.Sprintf("ByzHost: unknown mutation %q for message %d (%T)", h.M.Kind, idx, msg))
			}
			wire = encodeResp(msg)
		}
	}
	if h.RawMutate != nil {
		w2 := h.RawMutate(idx, append([]byte(nil), wire...))
		if !bytes.Equal(w2, wire) {
			applied = true
		}
		wire = w2
	}
	h.record(idx, honest, wire, msg, applied)
	_, err := s.Write(wire)
	return err
}

func (h *ByzHost) rpcErr(s net.Conn, desc string) {
	s.Write(encodeResp(&proto4.RPCError{Code: proto4.ErrorCodeBadRequest, Description: desc}))
}

func (h *ByzHost) req(v any) {
	h.mu.Lock()
	h.Requests = append(h.Requests, v)
	h.mu.Unlock()
}

// LastRequest returns the most recent request of type T.
func LastRequest[T any](h *ByzHost) (T, bool) {
	h.mu.Lock()
	defer h.mu.Unlock()
	for i := len(h.Requests) - 1; i >= 0; i-- {
		if v, ok := h.Requests[i].(T); ok {
			return v, true
		}
	}
	var z T
	return z, false
}

// SentObj returns message idx as sent (after mutation).
func SentObj[T any](h *ByzHost, idx int) (T, bool) {
	h.mu.Lock()
	defer h.mu.Unlock()
	for i := len(h.Sent) - 1; i >= 0; i-- {
		if h.Sent[i].Index == idx {
			v, ok := h.Sent[i].Obj.(T)
			return v, ok
		}
	}
	var z T
	return z, false
}

// Status returns what happened to the mutation.
func (h *ByzHost) Status() (applied, differs bool, harness string) {
	h.mu.Lock()
	defer h.mu.Unlock()
	return h.Applied, h.Differs, h.Harness
}

// ---------------------------------------------------------------- helpers

func pmod(i, n int) int {
	if n <= 0 {
		return 0
	}
	return ((i % n) + n) % n
}

func flipHash(l []types.Hash256, a, b int) bool {
	if len(l) == 0 {
		return false
	}
	l[pmod(a, len(l))][pmod(b, 32)] ^= 1 << uint(pmod(b/32, 8))
	return true
}

func cloneHashes(l []types.Hash256) []types.Hash256 { return append([]types.Hash256(nil), l...) }

// hashListMut applies the generic list families flip / trunc / extend / empty.
func hashListMut(l *[]types.Hash256, op string, a, b int) bool {
	switch op {
	case "flip":
		*l = cloneHashes(*l)
		flipHash(*l, a, b)
	case "trunc":
		if len(*l) > 0 {
			*l = cloneHashes((*l)[:len(*l)-1])
		}
	case "extend":
		*l = append(cloneHashes(*l), types.Hash256{0x5A, byte(a)})
	case "empty":
		*l = nil
	default:
		return false
	}
	return true
}

// OtherKey signs things a host must not accept.
var OtherKey = Key("byz-other")

// sigMut applies the signature families. honest is the revision the renter
// will compute itself, prev the revision before the exchange.
func (h *ByzHost) sigMut(sig *types.Signature, kind string, honest, prev types.V2FileContract) bool {
	switch kind {
	case "sig-flip":
		sig[pmod(h.M.A, 64)] ^= 1 << uint(pmod(h.M.B, 8))
	case "sig-zero":
		*sig = types.Signature{}
	case "sig-wrong-key":
		*sig = OtherKey.SignHash(h.CS.ContractSigHash(honest))
	case "sig-prev":
		// a genuine host signature from an earlier exchange
		*sig = prev.HostSignature
	case "sig-other-rev":
		// the real key over a revision that pays the host one hasting more
		alt := honest
		if alt.RenterOutput.Value.IsZero() {
			alt.RevisionNumber++
		} else {
			alt.RenterOutput.Value = alt.RenterOutput.Value.Sub(types.NewCurrency64(1))
			alt.HostOutput.Value = alt.HostOutput.Value.Add(types.NewCurrency64(1))
		}
		*sig = h.signer().SignHash(h.CS.ContractSigHash(alt))
	case "sig-other-number":
		alt := honest
		alt.RevisionNumber++
		*sig = h.signer().SignHash(h.CS.ContractSigHash(alt))
	default:
		return false
	}
	return true
}

// SigKinds are the signature mutation families.
var SigKinds = []string{"sig-flip", "sig-zero", "sig-wrong-key", "sig-prev", "sig-other-rev", "sig-other-number"}

// otherSector returns a stored sector different from root (or another pool
// sector when the host stores only one).
func (h *ByzHost) otherSector(root types.Hash256) *Sector {
	var roots []types.Hash256
	for r := range h.Sectors {
		if r != root {
			roots = append(roots, r)
		}
	}
	if len(roots) == 0 {
		for i := 0; i < PoolSize; i++ {
			if s := PoolSector(i); s.Root != root {
				return s
			}
		}
	}
	sort.Slice(roots, func(i, j int) bool { return bytes.Compare(roots[i][:], roots[j][:]) < 0 })
	return h.Sectors[roots[pmod(h.M.B, len(roots))]]
}

// shiftRange returns a different leaf-aligned range of the same length inside
// a sector, or ok=false when the range is the whole sector.
func shiftRange(off, ln uint64, a int) (uint64, bool) {
	if ln >= proto4.SectorSize {
		return 0, false
	}
	slots := (proto4.SectorSize - ln) / proto4.LeafSize // valid start leaves 0..slots
	if slots == 0 {
		return 0, false
	}
	cur := off / proto4.LeafSize
	nxt := (cur + 1 + uint64(pmod(a, int(min(slots, 64))))) % (slots + 1)
	if nxt == cur {
		nxt = (cur + 1) % (slots + 1)
	}
	return nxt * proto4.LeafSize, true
}

func (h *ByzHost) handle(s net.Conn) {
	id, err := proto4.ReadID(s)
	if err != nil {
		return
	}
	switch id {
	case proto4.RPCReadSectorID:
		err = h.handleRead(s)
	case proto4.RPCWriteSectorID:
		err = h.handleWrite(s)
	case proto4.RPCVerifySectorID:
		err = h.handleVerify(s)
	case proto4.RPCSectorRootsID:
		err = h.handleRoots(s)
	case proto4.RPCAppendSectorsID:
		err = h.handleAppend(s)
	case proto4.RPCFreeSectorsID:
		err = h.handleFree(s)
	case proto4.RPCFundAccountsID:
		err = h.handleFund(s)
	case proto4.RPCReplenishAccountsID:
		err = h.handleReplenish(s, false)
	case proto4.RPCReplenishPoolsID:
		err = h.handleReplenish(s, true)
	case proto4.RPCFormContractID:
		err = h.handleForm(s)
	case proto4.RPCRenewContractID:
		err = h.handleRenew(s)
	case proto4.RPCRefreshContractID:
		err = h.handleRefresh(s, false)
	case proto4.RPCRefreshPartialID:
		err = h.handleRefresh(s, true)
	default:
		h.rpcErr(s, "unrecognized RPC")
	}
	_ = err
}

// ---------------------------------------------------------------- sector RPCs

func (h *ByzHost) handleRead(s net.Conn) error {
	var req proto4.RPCReadSectorRequest
	if err := proto4.ReadRequest(s, &req); err != nil {
		return err
	}
	h.req(req)
	if err := req.Validate(h.Key.PublicKey()); err != nil && !h.PlayAlong {
		h.rpcErr(s, err.Error())
		return nil
	}
	sec := h.Sectors[req.Root]
	if sec == nil {
		s.Write(encodeResp(proto4.ErrSectorNotFound.(*proto4.RPCError)))
		return nil
	}
	off, ln := req.Offset, req.Length
	if h.PlayAlong {
		// serve the closest thing that exists: announce the requested length,
		// stream the part of the sector that lies inside it
		resp := &proto4.RPCReadSectorResponse{DataLength: ln}
		var data []byte
		if off < proto4.SectorSize {
			end := min(off+ln, proto4.SectorSize)
			if end < off {
				end = proto4.SectorSize
			}
			data = sec.Data[off:end]
			a, b := off/proto4.LeafSize, (end+proto4.LeafSize-1)/proto4.LeafSize
			if b > a {
				resp.Proof = sec.RangeProof(a*proto4.LeafSize, (b-a)*proto4.LeafSize)
			}
		}
		if err := h.emit(s, 0, resp, nil); err != nil {
			return err
		}
		h.record(1, data, data, nil, false)
		_, err := s.Write(data)
		return err
	}
	if off%proto4.LeafSize != 0 || ln%proto4.LeafSize != 0 {
		h.rpcErr(s, "offset and length must be multiples of leaf size")
		return nil
	}
	data := sec.Data[off : off+ln]
	resp := &proto4.RPCReadSectorResponse{Proof: sec.RangeProof(off, ln), DataLength: ln}
	other := h.otherSector(req.Root)
	err := h.emit(s, 0, resp, func(kind string) bool {
		switch kind {
		case "proof-flip", "proof-trunc", "proof-extend", "proof-empty":
			return hashListMut(&resp.Proof, kind[len("proof-"):], h.M.A, h.M.B)
		case "proof-other-range":
			if o2, ok := shiftRange(off, ln, h.M.A); ok {
				resp.Proof = sec.RangeProof(o2, ln)
			}
		case "proof-other-sector":
			resp.Proof = other.RangeProof(off, ln)
		case "lie-other-sector":
			resp.Proof = other.RangeProof(off, ln)
			data = other.Data[off : off+ln]
		case "lie-other-range":
			if o2, ok := shiftRange(off, ln, h.M.A); ok {
				resp.Proof = sec.RangeProof(o2, ln)
				data = sec.Data[o2 : o2+ln]
			}
		case "len-dec":
			resp.DataLength -= proto4.LeafSize
			data = data[:len(data)-proto4.LeafSize]
			if resp.DataLength > 0 {
				// a host that serves a shorter range with a proof that is valid for it
				resp.Proof = sec.RangeProof(off, resp.DataLength)
			}
		case "len-dec-honest-proof":
			resp.DataLength -= proto4.LeafSize
			data = data[:len(data)-proto4.LeafSize]
		case "len-inc":
			resp.DataLength += proto4.LeafSize
			data = append(append([]byte(nil), data...), make([]byte, proto4.LeafSize)...)
			if off+resp.DataLength <= proto4.SectorSize {
				data = sec.Data[off : off+resp.DataLength]
				resp.Proof = sec.RangeProof(off, resp.DataLength)
			}
		case "len-zero":
			resp.DataLength = 0
			data = nil
		case "len-huge":
			resp.DataLength = 1 << 40
		case "len-odd":
			resp.DataLength--
			data = data[:len(data)-1]
		default:
			return false
		}
		return true
	})
	if err != nil {
		return err
	}
	stream := data
	honest := sec.Data[off : off+ln]
	// a lie in the header that also changes what is streamed counts as applied
	applied := h.at(0) && !bytes.Equal(data, honest)
	if h.at(1) {
		applied = true
		switch h.M.Kind {
		case "data-flip":
			stream = append([]byte(nil), data...)
			stream[pmod(h.M.A, len(stream))] ^= 1 << uint(pmod(h.M.B, 8))
		case "data-trunc":
			stream = data[:len(data)-1-pmod(h.M.A, len(data))]
		case "data-extend":
			stream = append(append([]byte(nil), data...), make([]byte, 1+pmod(h.M.A, 128))...)
		case "data-zero":
			stream = make([]byte, len(data))
		case "data-other-sector":
			stream = other.Data[off : off+ln]
		case "data-shift":
			if o2, ok := shiftRange(off, ln, h.M.A); ok {
				stream = sec.Data[o2 : o2+ln]
			}
		case "data-swap-leaves":
			stream = append([]byte(nil), data...)
			if n := len(stream) / proto4.LeafSize; n >= 2 {
				i, j := pmod(h.M.A, n), pmod(h.M.A+1+pmod(h.M.B, n-1), n)
				var tmp [proto4.LeafSize]byte
				copy(tmp[:], stream[i*proto4.LeafSize:])
				copy(stream[i*proto4.LeafSize:(i+1)*proto4.LeafSize], stream[j*proto4.LeafSize:(j+1)*proto4.LeafSize])
				copy(stream[j*proto4.LeafSize:(j+1)*proto4.LeafSize], tmp[:])
			}
		case "close", "rpc-error":
			h.record(1, honest, nil, nil, true)
			return errStop
		default:
			h.harness(fmt.Sprintf("ByzHost: unknown mutation %q for the read data stream", h.M.Kind))
		}
	}
	if h.RawMutate != nil {
		w2 := h.RawMutate(1, append([]byte(nil), stream...))
		if !bytes.Equal(w2, stream) {
			applied = true
		}
		stream = w2
	}
	h.record(1, honest, stream, nil, applied)
	_, err = s.Write(stream)
	return err
}

var paddedCache sync.Map // string(len|first 64 bytes) -> types.Hash256

func cachedPaddedRoot(data []byte) types.Hash256 {
	key := fmt.Sprintf("%d|%x", len(data), data[:min(64, len(data))])
	if v, ok := paddedCache.Load(key); ok {
		return v.(types.Hash256)
	}
	r := PaddedRoot(data)
	paddedCache.Store(key, r)
	return r
}

// TrueWriteRoot is the ground-truth root of a short write of pool data (cached
// per process: pool sectors are fixed, so (length, first leaf) identifies it).
func TrueWriteRoot(data []byte) types.Hash256 { return cachedPaddedRoot(data) }

func (h *ByzHost) handleWrite(s net.Conn) error {
	var req proto4.RPCWriteSectorRequest
	if err := proto4.ReadRequest(s, &req); err != nil {
		return err
	}
	h.req(req)
	if err := req.Validate(h.Key.PublicKey()); err != nil {
		h.rpcErr(s, err.Error())
		return nil
	}
	data := make([]byte, req.DataLength)
	if _, err := io.ReadFull(s, data); err != nil {
		return err
	}
	h.req(data)
	resp := &proto4.RPCWriteSectorResponse{Root: cachedPaddedRoot(data)}
	return h.emit(s, 0, resp, func(kind string) bool {
		switch kind {
		case "root-flip":
			resp.Root[pmod(h.M.A, 32)] ^= 1 << uint(pmod(h.M.B, 8))
		case "root-zero":
			resp.Root = types.Hash256{}
		case "root-other":
			resp.Root = h.otherSector(resp.Root).Root
		case "root-unpadded":
			if r, err := proto4.ReaderRoot(bytes.NewReader(data)); err == nil {
				resp.Root = r
			}
		case "root-first-leaf-zeroed":
			d2 := append([]byte(nil), data...)
			clear(d2[:proto4.LeafSize])
			resp.Root = PaddedRoot(d2)
		default:
			return false
		}
		return true
	})
}

func (h *ByzHost) handleVerify(s net.Conn) error {
	var req proto4.RPCVerifySectorRequest
	if err := proto4.ReadRequest(s, &req); err != nil {
		return err
	}
	h.req(req)
	if err := req.Validate(h.Key.PublicKey()); err != nil {
		h.rpcErr(s, err.Error())
		return nil
	}
	sec := h.Sectors[req.Root]
	if sec == nil {
		s.Write(encodeResp(proto4.ErrSectorNotFound.(*proto4.RPCError)))
		return nil
	}
	idx := req.LeafIndex
	resp := &proto4.RPCVerifySectorResponse{Proof: sec.RangeProof(idx*proto4.LeafSize, proto4.LeafSize), Leaf: sec.Leaf(idx)}
	other := h.otherSector(req.Root)
	idx2 := (idx + 1 + uint64(pmod(h.M.A, 1000))) % proto4.LeavesPerSector
	return h.emit(s, 0, resp, func(kind string) bool {
		switch kind {
		case "proof-flip", "proof-trunc", "proof-extend", "proof-empty":
			return hashListMut(&resp.Proof, kind[len("proof-"):], h.M.A, h.M.B)
		case "leaf-flip":
			resp.Leaf[pmod(h.M.A, 64)] ^= 1 << uint(pmod(h.M.B, 8))
		case "leaf-zero":
			resp.Leaf = [64]byte{}
		case "leaf-other-index":
			resp.Leaf = sec.Leaf(idx2)
		case "lie-other-index":
			resp.Leaf = sec.Leaf(idx2)
			resp.Proof = sec.RangeProof(idx2*proto4.LeafSize, proto4.LeafSize)
		case "lie-other-sector":
			resp.Leaf = other.Leaf(idx)
			resp.Proof = other.RangeProof(idx*proto4.LeafSize, proto4.LeafSize)
		default:
			return false
		}
		return true
	})
}

// ---------------------------------------------------------------- revision RPCs

func (h *ByzHost) contract(s net.Conn, id types.FileContractID) *BContract {
	c := h.Contracts[id]
	if c == nil {
		s.Write(encodeResp(proto4.ErrContractNotFound.(*proto4.RPCError)))
	}
	return c
}

// SwapRemove is the list model of RPCFreeSectors for indices in the order the
// host receives them.
func SwapRemove(roots []types.Hash256, indices []uint64) []types.Hash256 {
	roots = cloneHashes(roots)
	for i, n := range indices {
		roots[n] = roots[len(roots)-i-1]
	}
	return roots[:len(roots)-len(indices)]
}

func (h *ByzHost) handleRoots(s net.Conn) error {
	var req proto4.RPCSectorRootsRequest
	if err := proto4.ReadRequest(s, &req); err != nil {
		return err
	}
	h.req(req)
	c := h.contract(s, req.ContractID)
	if c == nil {
		return nil
	}
	if err := req.Validate(h.Key.PublicKey(), c.Rev); err != nil && !h.PlayAlong {
		h.rpcErr(s, err.Error())
		return nil
	}
	rev, _, err := proto4.ReviseForSectorRoots(c.Rev, req.Prices, req.Length)
	if err != nil {
		h.rpcErr(s, err.Error())
		return nil
	}
	rev = h.greedy(c.Rev, req.RenterSignature, rev, func() (l []types.V2FileContract) {
		// the price depends on the 4 KiB bucket of 32 bytes x roots
		for k := uint64(1); k <= req.Offset+req.Length+uint64(len(c.Roots))+512; k += 128 {
			if fc, _, err := proto4.ReviseForSectorRoots(c.Rev, req.Prices, k); err == nil {
				l = append(l, fc)
			}
		}
		return
	})
	rev.RenterSignature = req.RenterSignature
	rev.HostSignature = h.signer().SignHash(h.CS.ContractSigHash(rev))
	off, ln := req.Offset, req.Length
	if n := uint64(len(c.Roots)); h.PlayAlong && (ln == 0 || off > n || ln > n-off) {
		// exactly `length` roots (real ones where they exist, made up beyond),
		// the proof of the part that exists, a genuine signature
		resp := &proto4.RPCSectorRootsResponse{HostSignature: rev.HostSignature}
		for i := uint64(0); i < ln && i < 1<<16; i++ {
			if off+i < n && off+i >= off {
				resp.Roots = append(resp.Roots, c.Roots[off+i])
			} else {
				resp.Roots = append(resp.Roots, types.Hash256{0xF0, byte(i), byte(i >> 8)})
			}
		}
		if off < n && ln > 0 {
			resp.Proof = proto4.BuildSectorRootsProof(c.Roots, off, n)
		}
		return h.emit(s, 0, resp, nil)
	}
	resp := &proto4.RPCSectorRootsResponse{
		Proof:         proto4.BuildSectorRootsProof(c.Roots, off, off+ln),
		Roots:         cloneHashes(c.Roots[off : off+ln]),
		HostSignature: rev.HostSignature,
	}
	prev := c.Rev
	if h.honest() {
		c.Rev = rev
	}
	err = h.emit(s, 0, resp, func(kind string) bool {
		switch kind {
		case "proof-flip", "proof-trunc", "proof-extend", "proof-empty":
			return hashListMut(&resp.Proof, kind[len("proof-"):], h.M.A, h.M.B)
		case "roots-flip", "roots-trunc", "roots-extend", "roots-empty":
			return hashListMut(&resp.Roots, kind[len("roots-"):], h.M.A, h.M.B)
		case "roots-swap":
			if n := len(resp.Roots); n >= 2 {
				i := pmod(h.M.A, n)
				j := pmod(i+1+pmod(h.M.B, n-1), n)
				resp.Roots[i], resp.Roots[j] = resp.Roots[j], resp.Roots[i]
			}
		case "roots-substitute":
			resp.Roots[pmod(h.M.A, len(resp.Roots))] = PoolSector(PoolSize - 1).Root
		case "lie-other-range":
			n := uint64(len(c.Roots))
			if n > ln {
				o2 := (off + 1 + uint64(pmod(h.M.A, int(n-ln)))) % (n - ln + 1)
				if o2 == off {
					o2 = (off + 1) % (n - ln + 1)
				}
				resp.Roots = cloneHashes(c.Roots[o2 : o2+ln])
				resp.Proof = proto4.BuildSectorRootsProof(c.Roots, o2, o2+ln)
			}
		default:
			return h.sigMut(&resp.HostSignature, kind, rev, prev)
		}
		return true
	})
	return err
}

func (h *ByzHost) handleAppend(s net.Conn) error {
	var req proto4.RPCAppendSectorsRequest
	if err := proto4.ReadRequest(s, &req); err != nil {
		return err
	}
	h.req(req)
	if err := req.Validate(h.Key.PublicKey()); err != nil && !h.PlayAlong {
		h.rpcErr(s, err.Error())
		return nil
	}
	c := h.contract(s, req.ContractID)
	if c == nil {
		return nil
	}
	if !req.ValidChallengeSignature(c.Rev) {
		h.rpcErr(s, "invalid challenge signature")
		return nil
	}
	accepted := make([]bool, len(req.Sectors))
	var appended []types.Hash256
	for i, r := range req.Sectors {
		if _, ok := h.Sectors[r]; ok {
			accepted[i] = true
			appended = append(appended, r)
		}
	}
	sub, newRoot := proto4.BuildAppendProof(c.Roots, appended)
	resp := &proto4.RPCAppendSectorsResponse{Accepted: accepted, SubtreeRoots: sub, NewMerkleRoot: newRoot}
	rebuild := func() { resp.SubtreeRoots, resp.NewMerkleRoot = proto4.BuildAppendProof(c.Roots, appended) }
	err := h.emit(s, 0, resp, func(kind string) bool {
		switch kind {
		case "subtree-flip", "subtree-trunc", "subtree-extend", "subtree-empty":
			return hashListMut(&resp.SubtreeRoots, kind[len("subtree-"):], h.M.A, h.M.B)
		case "root-flip":
			resp.NewMerkleRoot[pmod(h.M.A, 32)] ^= 1 << uint(pmod(h.M.B, 8))
		case "root-unchanged":
			resp.NewMerkleRoot = c.Rev.FileMerkleRoot
		case "root-reorder":
			if len(appended) >= 2 {
				rv := cloneHashes(appended)
				for i, j := 0, len(rv)-1; i < j; i, j = i+1, j-1 {
					rv[i], rv[j] = rv[j], rv[i]
				}
				_, resp.NewMerkleRoot = proto4.BuildAppendProof(c.Roots, rv)
			}
		case "root-substitute":
			if len(appended) > 0 {
				rv := cloneHashes(appended)
				rv[pmod(h.M.A, len(rv))] = PoolSector(PoolSize - 1).Root
				_, resp.NewMerkleRoot = proto4.BuildAppendProof(c.Roots, rv)
			}
		case "root-dup":
			if len(appended) > 0 {
				_, resp.NewMerkleRoot = proto4.BuildAppendProof(c.Roots, append(cloneHashes(appended), appended[len(appended)-1]))
			}
		case "root-drop-one":
			// claims every sector accepted, commits to one fewer
			if len(appended) > 0 {
				_, resp.NewMerkleRoot = proto4.BuildAppendProof(c.Roots, appended[:len(appended)-1])
			}
		case "accepted-trunc":
			if len(resp.Accepted) > 0 {
				resp.Accepted = resp.Accepted[:len(resp.Accepted)-1]
			}
		case "accepted-extend":
			resp.Accepted = append(resp.Accepted, true)
		case "accepted-decline":
			// legitimate: the host declines one sector and commits to the rest
			var idxs []int
			for i, ok := range accepted {
				if ok {
					idxs = append(idxs, i)
				}
			}
			if len(idxs) > 0 {
				k := pmod(h.M.A, len(idxs))
				resp.Accepted = append([]bool(nil), accepted...)
				resp.Accepted[idxs[k]] = false
				appended = append(cloneHashes(appended[:k]), appended[k+1:]...)
				rebuild()
			}
		case "accepted-false-lie":
			// says declined, commits to it anyway
			resp.Accepted = append([]bool(nil), accepted...)
			for i := range resp.Accepted {
				j := pmod(h.M.A+i, len(resp.Accepted))
				if resp.Accepted[j] {
					resp.Accepted[j] = false
					break
				}
			}
		case "accepted-true-lie":
			// says accepted a sector it does not commit to
			resp.Accepted = append([]bool(nil), accepted...)
			done := false
			for i := range resp.Accepted {
				if !resp.Accepted[i] {
					resp.Accepted[i] = true
					done = true
					break
				}
			}
			if !done && len(appended) > 0 {
				_, resp.NewMerkleRoot = proto4.BuildAppendProof(c.Roots, appended[:len(appended)-1])
			}
		default:
			return false
		}
		return true
	})
	if err != nil {
		return err
	}
	var n uint64
	for _, ok := range resp.Accepted {
		if ok {
			n++
		}
	}
	rev, _, err := proto4.ReviseForAppendSectors(c.Rev, req.Prices, resp.NewMerkleRoot, n)
	if err != nil {
		h.rpcErr(s, err.Error())
		return nil
	}
	var second proto4.RPCAppendSectorsSecondResponse
	if err := proto4.ReadResponse(s, &second); err != nil {
		return err
	}
	h.req(second)
	rev = h.greedy(c.Rev, second.RenterSignature, rev, func() (l []types.V2FileContract) {
		for k := uint64(0); k <= uint64(len(req.Sectors))+2; k++ {
			if fc, _, err := proto4.ReviseForAppendSectors(c.Rev, req.Prices, resp.NewMerkleRoot, k); err == nil {
				l = append(l, fc)
			}
		}
		return
	})
	rev.RenterSignature = second.RenterSignature
	rev.HostSignature = h.signer().SignHash(h.CS.ContractSigHash(rev))
	third := &proto4.RPCAppendSectorsThirdResponse{HostSignature: rev.HostSignature}
	prev := c.Rev
	if h.honest() {
		c.Rev = rev
		c.Roots = append(c.Roots, appended...)
	}
	return h.emit(s, 1, third, func(kind string) bool { return h.sigMut(&third.HostSignature, kind, rev, prev) })
}

func (h *ByzHost) handleFree(s net.Conn) error {
	var req proto4.RPCFreeSectorsRequest
	if err := proto4.ReadRequest(s, &req); err != nil {
		return err
	}
	h.req(req)
	c := h.contract(s, req.ContractID)
	if c == nil {
		return nil
	}
	if !req.ValidChallengeSignature(c.Rev) {
		h.rpcErr(s, "invalid challenge signature")
		return nil
	}
	if err := req.Validate(h.Key.PublicKey(), c.Rev); err != nil {
		if !h.PlayAlong {
			h.rpcErr(s, err.Error())
			return nil
		}
		return h.playAlongFree(s, req, c)
	}
	tree, leaves := proto4.BuildFreeSectorsProof(c.Roots, req.Indices)
	newRoots := SwapRemove(c.Roots, req.Indices)
	resp := &proto4.RPCFreeSectorsResponse{OldSubtreeHashes: tree, OldLeafHashes: leaves, NewMerkleRoot: proto4.MetaRoot(newRoots)}
	err := h.emit(s, 0, resp, func(kind string) bool {
		switch kind {
		case "subtree-flip", "subtree-trunc", "subtree-extend", "subtree-empty":
			return hashListMut(&resp.OldSubtreeHashes, kind[len("subtree-"):], h.M.A, h.M.B)
		case "leaf-flip", "leaf-trunc", "leaf-extend", "leaf-empty":
			return hashListMut(&resp.OldLeafHashes, kind[len("leaf-"):], h.M.A, h.M.B)
		case "leaf-swap":
			if n := len(resp.OldLeafHashes); n >= 2 {
				l := cloneHashes(resp.OldLeafHashes)
				i := pmod(h.M.A, n)
				j := pmod(i+1+pmod(h.M.B, n-1), n)
				l[i], l[j] = l[j], l[i]
				resp.OldLeafHashes = l
			}
		case "root-flip":
			resp.NewMerkleRoot[pmod(h.M.A, 32)] ^= 1 << uint(pmod(h.M.B, 8))
		case "root-unchanged":
			resp.NewMerkleRoot = c.Rev.FileMerkleRoot
		case "root-noswap":
			// order-preserving deletion instead of swap-remove
			del := map[uint64]bool{}
			for _, i := range req.Indices {
				del[i] = true
			}
			var keep []types.Hash256
			for i, r := range c.Roots {
				if !del[uint64(i)] {
					keep = append(keep, r)
				}
			}
			resp.NewMerkleRoot = proto4.MetaRoot(keep)
		case "root-keep-one":
			if len(req.Indices) > 0 {
				resp.NewMerkleRoot = proto4.MetaRoot(SwapRemove(c.Roots, req.Indices[:len(req.Indices)-1]))
			}
		case "lie-other-indices":
			// a proof and root that are consistent, for different indices
			n := uint64(len(c.Roots))
			alt := make([]uint64, len(req.Indices))
			used := map[uint64]bool{}
			for i, x := range req.Indices {
				y := (x + 1 + uint64(pmod(h.M.A, 3))) % n
				for used[y] {
					y = (y + 1) % n
				}
				used[y] = true
				alt[i] = y
			}
			sort.Slice(alt, func(i, j int) bool { return alt[i] > alt[j] })
			resp.OldSubtreeHashes, resp.OldLeafHashes = proto4.BuildFreeSectorsProof(c.Roots, alt)
			resp.NewMerkleRoot = proto4.MetaRoot(SwapRemove(c.Roots, alt))
		default:
			return false
		}
		return true
	})
	if err != nil {
		return err
	}
	rev, _, err := proto4.ReviseForFreeSectors(c.Rev, req.Prices, resp.NewMerkleRoot, len(req.Indices))
	if err != nil {
		h.rpcErr(s, err.Error())
		return nil
	}
	var second proto4.RPCFreeSectorsSecondResponse
	if err := proto4.ReadResponse(s, &second); err != nil {
		return err
	}
	h.req(second)
	rev = h.greedy(c.Rev, second.RenterSignature, rev, func() (l []types.V2FileContract) {
		for k := 0; k <= len(req.Indices)+3 && uint64(k) <= uint64(len(c.Roots)); k++ {
			if fc, _, err := proto4.ReviseForFreeSectors(c.Rev, req.Prices, resp.NewMerkleRoot, k); err == nil {
				// the file size the renter derives may be for another count than the price
				for d := 0; d <= len(req.Indices)+3 && uint64(d) <= uint64(len(c.Roots)); d++ {
					fc.Filesize = c.Rev.Filesize - proto4.SectorSize*uint64(d)
					l = append(l, fc)
				}
			}
		}
		return
	})
	rev.RenterSignature = second.RenterSignature
	rev.HostSignature = h.signer().SignHash(h.CS.ContractSigHash(rev))
	third := &proto4.RPCFreeSectorsThirdResponse{HostSignature: rev.HostSignature}
	prev := c.Rev
	if h.honest() {
		c.Rev = rev
		c.Roots = newRoots
	}
	return h.emit(s, 1, third, func(kind string) bool { return h.sigMut(&third.HostSignature, kind, rev, prev) })
}

// playAlongFree answers a free request whose indices do not all exist: the
// host treats the impossible swaps as no-ops, trims as many sectors as there
// are indices (as far as the contract goes), proves exactly that, and signs
// the revision the renter will derive from the announced root.
func (h *ByzHost) playAlongFree(s net.Conn, req proto4.RPCFreeSectorsRequest, c *BContract) (err error) {
	defer func() {
		if r := recover(); r != nil {
			// core's proof builders may reject the arguments outright; then
			// the host has nothing plausible to say
			h.rpcErr(s, "cannot play along")
			err = nil
		}
	}()
	n := uint64(len(c.Roots))
	roots := cloneHashes(c.Roots)
	for i, idx := range req.Indices {
		last := n - uint64(i) - 1
		if idx < n && last < n {
			roots[idx] = roots[last]
		}
	}
	keep := uint64(0)
	if uint64(len(req.Indices)) < n {
		keep = n - uint64(len(req.Indices))
	}
	roots = roots[:keep]
	tree, leaves := proto4.BuildFreeSectorsProof(c.Roots, req.Indices)
	resp := &proto4.RPCFreeSectorsResponse{OldSubtreeHashes: tree, OldLeafHashes: leaves, NewMerkleRoot: proto4.MetaRoot(roots)}
	if err := h.emit(s, 0, resp, nil); err != nil {
		return err
	}
	rev, _, rerr := proto4.ReviseForFreeSectors(c.Rev, req.Prices, resp.NewMerkleRoot, len(req.Indices))
	if rerr != nil {
		h.rpcErr(s, rerr.Error())
		return nil
	}
	var second proto4.RPCFreeSectorsSecondResponse
	if err := proto4.ReadResponse(s, &second); err != nil {
		return err
	}
	h.req(second)
	rev.RenterSignature = second.RenterSignature
	rev.HostSignature = h.signer().SignHash(h.CS.ContractSigHash(rev))
	return h.emit(s, 1, &proto4.RPCFreeSectorsThirdResponse{HostSignature: rev.HostSignature}, nil)
}

func (h *ByzHost) handleFund(s net.Conn) error {
	var req proto4.RPCFundAccountsRequest
	if err := proto4.ReadRequest(s, &req); err != nil {
		return err
	}
	h.req(req)
	if err := req.Validate(); err != nil && !h.PlayAlong {
		h.rpcErr(s, err.Error())
		return nil
	}
	c := h.contract(s, req.ContractID)
	if c == nil {
		return nil
	}
	var total types.Currency
	for _, d := range req.Deposits {
		total = total.Add(d.Amount)
	}
	rev, _, err := proto4.ReviseForFundAccounts(c.Rev, total)
	if err != nil {
		h.rpcErr(s, err.Error())
		return nil
	}
	rev = h.greedy(c.Rev, req.RenterSignature, rev, func() (l []types.V2FileContract) {
		amounts := []types.Currency{total.Mul64(2), total.Mul64(3), total.Add(types.NewCurrency64(1))}
		for _, d := range req.Deposits {
			amounts = append(amounts, total.Add(d.Amount))
		}
		for _, a := range amounts {
			if fc, _, err := proto4.ReviseForFundAccounts(c.Rev, a); err == nil {
				l = append(l, fc)
			}
		}
		return
	})
	rev.RenterSignature = req.RenterSignature
	rev.HostSignature = h.signer().SignHash(h.CS.ContractSigHash(rev))
	resp := &proto4.RPCFundAccountsResponse{HostSignature: rev.HostSignature}
	bal := map[proto4.Account]types.Currency{}
	for k, v := range h.Balances {
		bal[k] = v
	}
	for _, d := range req.Deposits {
		bal[d.Account] = bal[d.Account].Add(d.Amount)
		resp.Balances = append(resp.Balances, bal[d.Account])
	}
	prev := c.Rev
	if h.honest() {
		c.Rev = rev
		h.Balances = bal
	}
	err = h.emit(s, 0, resp, func(kind string) bool {
		switch kind {
		case "balances-trunc":
			resp.Balances = resp.Balances[:len(resp.Balances)-1]
		case "balances-extend":
			resp.Balances = append(resp.Balances, types.Siacoins(1))
		case "balances-empty":
			resp.Balances = nil
		default:
			return h.sigMut(&resp.HostSignature, kind, rev, prev)
		}
		return true
	})
	return err
}

func (h *ByzHost) handleReplenish(s net.Conn, pools bool) error {
	var req proto4.RPCReplenishAccountsRequest
	if err := proto4.ReadRequest(s, &req); err != nil {
		return err
	}
	h.req(req)
	if err := req.Validate(); err != nil && !h.PlayAlong {
		h.rpcErr(s, err.Error())
		return nil
	}
	c := h.contract(s, req.ContractID)
	if c == nil {
		return nil
	}
	if !req.ValidChallengeSignature(c.Rev) {
		h.rpcErr(s, "invalid challenge signature")
		return nil
	}
	table := h.Balances
	if pools {
		table = h.Pools
	}
	resp := &proto4.RPCReplenishAccountsResponse{}
	for _, a := range req.Accounts {
		d := proto4.AccountDeposit{Account: a}
		if v, under := req.Target.SubWithUnderflow(table[a]); !under {
			d.Amount = v
		}
		resp.Deposits = append(resp.Deposits, d)
	}
	honestDeposits := append([]proto4.AccountDeposit(nil), resp.Deposits...)
	err := h.emit(s, 0, resp, func(kind string) bool {
		resp.Deposits = append([]proto4.AccountDeposit(nil), resp.Deposits...)
		n := len(resp.Deposits)
		switch kind {
		case "dep-over-target":
			resp.Deposits[pmod(h.M.A, n)].Amount = req.Target.Add(types.NewCurrency64(1 + uint64(pmod(h.M.B, 1000))))
		case "dep-all-target":
			for i := range resp.Deposits {
				resp.Deposits[i].Amount = req.Target
			}
		case "dep-extra-small":
			resp.Deposits = append(resp.Deposits, proto4.AccountDeposit{Account: proto4.Account(OtherKey.PublicKey()), Amount: types.NewCurrency64(1)})
		case "dep-extra-target":
			for i := range resp.Deposits {
				resp.Deposits[i].Amount = req.Target
			}
			for i := 0; i <= pmod(h.M.A, 3); i++ {
				resp.Deposits = append(resp.Deposits, proto4.AccountDeposit{Account: proto4.Account(OtherKey.PublicKey()), Amount: req.Target})
			}
		case "dep-fewer":
			resp.Deposits = resp.Deposits[:n-1]
		case "dep-none":
			resp.Deposits = nil
		case "dep-zero-all":
			for i := range resp.Deposits {
				resp.Deposits[i].Amount = types.ZeroCurrency
			}
		case "dep-other-account":
			resp.Deposits[pmod(h.M.A, n)].Account = proto4.Account(OtherKey.PublicKey())
		case "dep-overflow":
			for i := range resp.Deposits {
				resp.Deposits[i].Amount = req.Target
			}
			resp.Deposits = append(resp.Deposits, proto4.AccountDeposit{Account: proto4.Account(OtherKey.PublicKey()), Amount: types.MaxCurrency})
		default:
			return false
		}
		return true
	})
	if err != nil {
		return err
	}
	var total types.Currency
	for _, d := range resp.Deposits {
		var over bool
		if total, over = total.AddWithOverflow(d.Amount); over {
			total = types.MaxCurrency
		}
	}
	if total.IsZero() {
		return nil
	}
	rev, _, err := proto4.ReviseForReplenish(c.Rev, total)
	if err != nil {
		h.rpcErr(s, err.Error())
		return nil
	}
	var second proto4.RPCReplenishAccountsSecondResponse
	if err := proto4.ReadResponse(s, &second); err != nil {
		return err
	}
	h.req(second)
	rev = h.greedy(c.Rev, second.RenterSignature, rev, func() (l []types.V2FileContract) {
		amounts := []types.Currency{total.Mul64(2), total.Add(types.NewCurrency64(1))}
		for j := uint64(1); j <= uint64(len(req.Accounts))+2; j++ {
			amounts = append(amounts, req.Target.Mul64(j), total.Add(req.Target.Mul64(j)))
		}
		for _, a := range amounts {
			if fc, _, err := proto4.ReviseForReplenish(c.Rev, a); err == nil {
				l = append(l, fc)
			}
		}
		return
	})
	rev.RenterSignature = second.RenterSignature
	rev.HostSignature = h.signer().SignHash(h.CS.ContractSigHash(rev))
	third := &proto4.RPCReplenishAccountsThirdResponse{HostSignature: rev.HostSignature}
	prev := c.Rev
	if h.honest() {
		c.Rev = rev
		for _, d := range honestDeposits {
			table[d.Account] = table[d.Account].Add(d.Amount)
		}
	}
	return h.emit(s, 1, third, func(kind string) bool { return h.sigMut(&third.HostSignature, kind, rev, prev) })
}

// ---------------------------------------------------------------- formation RPCs

// fakeHostInputs fabricates host inputs worth total: the renter cannot check
// elements or proofs, only values, so ground truth here is just the amount
// the host claims to contribute.
func (h *ByzHost) fakeHostInputs(total types.Currency, salt byte) []types.V2SiacoinInput {
	if total.IsZero() {
		return nil
	}
	policy := types.SpendPolicy{Type: types.PolicyTypeUnlockConditions(types.StandardUnlockConditions(h.Key.PublicKey()))}
	return []types.V2SiacoinInput{{
		Parent: types.SiacoinElement{
			ID:            types.SiacoinOutputID{0xB1, salt},
			StateElement:  types.StateElement{LeafIndex: 7, MerkleProof: []types.Hash256{{1}, {2}}},
			SiacoinOutput: types.SiacoinOutput{Value: total, Address: h.Addr},
		},
		SatisfiedPolicy: types.SatisfiedPolicy{Policy: policy, Signatures: []types.Signature{h.Key.SignHash(types.Hash256{salt})}},
	}}
}

func (h *ByzHost) hostInputsMut(inputs *[]types.V2SiacoinInput, kind string) bool {
	in := append([]types.V2SiacoinInput(nil), *inputs...)
	switch kind {
	case "inputs-none":
		in = nil
	case "input-deflate":
		if len(in) > 0 {
			v := in[0].Parent.SiacoinOutput.Value
			if !v.IsZero() {
				in[0].Parent.SiacoinOutput.Value = v.Sub(types.NewCurrency64(1))
			}
		}
	case "input-inflate":
		if len(in) > 0 {
			in[0].Parent.SiacoinOutput.Value = in[0].Parent.SiacoinOutput.Value.Add(types.Siacoins(1))
		} else {
			in = h.fakeHostInputs(types.Siacoins(1), 0x77)
		}
	case "input-overflow":
		// two inputs whose values cannot be added in 128 bits
		a := h.fakeHostInputs(types.MaxCurrency, 0x78)
		b := h.fakeHostInputs(types.MaxCurrency, 0x79)
		in = append(a, b...)
	case "input-dup":
		if len(in) > 0 {
			in = append(in, in[0])
		}
	default:
		return false
	}
	*inputs = in
	return true
}

// HostInputKinds are the mutation families of the first formation response.
var HostInputKinds = []string{"inputs-none", "input-deflate", "input-inflate", "input-overflow", "input-dup"}

func sumInputs(in []types.V2SiacoinInput) (types.Currency, bool) {
	var t types.Currency
	for _, i := range in {
		var over bool
		if t, over = t.AddWithOverflow(i.Parent.SiacoinOutput.Value); over {
			return types.ZeroCurrency, false
		}
	}
	return t, true
}

func (h *ByzHost) handleForm(s net.Conn) error {
	var req proto4.RPCFormContractRequest
	if err := proto4.ReadRequest(s, &req); err != nil {
		return err
	}
	h.req(req)
	fc, _ := proto4.NewContract(req.Prices, req.Contract, h.contractKey(), h.Addr)
	txn := types.V2Transaction{MinerFee: req.MinerFee, FileContracts: []types.V2FileContract{fc}}
	var renterSum types.Currency
	for _, sce := range req.RenterInputs {
		txn.SiacoinInputs = append(txn.SiacoinInputs, types.V2SiacoinInput{Parent: sce.Copy()})
		renterSum = renterSum.Add(sce.SiacoinOutput.Value)
	}
	renterCost, hostCost := proto4.ContractCost(h.CS, fc, req.MinerFee)
	if renterSum.Cmp(renterCost) < 0 {
		h.rpcErr(s, "renter funding too low")
		return nil
	} else if renterSum.Cmp(renterCost) > 0 {
		txn.SiacoinOutputs = append(txn.SiacoinOutputs, types.SiacoinOutput{Address: req.Contract.RenterAddress, Value: renterSum.Sub(renterCost)})
	}
	first := &proto4.RPCFormContractResponse{HostInputs: h.fakeHostInputs(hostCost, 1)}
	if err := h.emit(s, 0, first, func(kind string) bool { return h.hostInputsMut(&first.HostInputs, kind) }); err != nil {
		return err
	}
	// build the transaction the way the renter will (it adds a change output
	// for whatever the host claims to have over-funded)
	txn.SiacoinInputs = append(txn.SiacoinInputs, first.HostInputs...)
	if sum, ok := sumInputs(first.HostInputs); ok && sum.Cmp(fc.TotalCollateral) > 0 {
		txn.SiacoinOutputs = append(txn.SiacoinOutputs, types.SiacoinOutput{Address: fc.HostOutput.Address, Value: sum.Sub(fc.TotalCollateral)})
	}
	var second proto4.RPCFormContractSecondResponse
	if err := proto4.ReadResponse(s, &second); err != nil {
		return err
	}
	h.req(second)
	for i := range second.RenterSatisfiedPolicies {
		if i < len(req.RenterInputs) {
			txn.SiacoinInputs[i].SatisfiedPolicy = second.RenterSatisfiedPolicies[i]
		}
	}
	sigHash := h.CS.ContractSigHash(fc)
	txn.FileContracts[0].RenterSignature = second.RenterContractSignature
	txn.FileContracts[0].HostSignature = h.signer().SignHash(sigHash)
	set := append(append([]types.V2Transaction(nil), req.RenterParents...), txn)
	third := &proto4.RPCFormContractThirdResponse{Basis: req.Basis, TransactionSet: set}
	return h.emit(s, 1, third, func(kind string) bool {
		ts := make([]types.V2Transaction, len(third.TransactionSet))
		for i := range ts {
			ts[i] = third.TransactionSet[i].DeepCopy()
		}
		third.TransactionSet = ts
		last := &ts[len(ts)-1]
		c := &last.FileContracts[0]
		switch kind {
		case "set-empty":
			third.TransactionSet = nil
		case "set-no-contract":
			last.FileContracts = nil
		case "set-two-contracts":
			last.FileContracts = append(last.FileContracts, last.FileContracts[0])
		case "set-drop-last":
			third.TransactionSet = append(ts[:len(ts)-1], types.V2Transaction{MinerFee: req.MinerFee})
		case "payout-keep-sigs":
			c.RenterOutput.Value = c.RenterOutput.Value.Sub(types.NewCurrency64(1))
			c.HostOutput.Value = c.HostOutput.Value.Add(types.NewCurrency64(1))
		case "payout-resign":
			c.RenterOutput.Value = c.RenterOutput.Value.Sub(types.NewCurrency64(1))
			c.HostOutput.Value = c.HostOutput.Value.Add(types.NewCurrency64(1))
			c.HostSignature = h.signer().SignHash(h.CS.ContractSigHash(*c))
		case "collateral-keep-sigs":
			c.MissedHostValue = types.ZeroCurrency
		case "fee-alter":
			last.MinerFee = last.MinerFee.Add(types.NewCurrency64(1))
		case "basis-alter":
			third.Basis.ID[0] ^= 1
		case "renter-key-swap":
			c.RenterPublicKey = OtherKey.PublicKey()
		default:
			return h.sigMut(&c.HostSignature, kind, fc, types.V2FileContract{HostSignature: h.Key.SignHash(types.Hash256{9})})
		}
		return true
	})
}

// FormThirdKinds are the mutation families of the third formation response.
var FormThirdKinds = append([]string{"set-empty", "set-no-contract", "set-two-contracts", "set-drop-last", "payout-keep-sigs", "payout-resign", "collateral-keep-sigs", "fee-alter", "basis-alter", "renter-key-swap"}, SigKinds...)

// renewLike runs the common part of renew / refresh once the renewal and the
// costs are known.
func (h *ByzHost) renewLike(s net.Conn, contractID types.FileContractID, existing types.V2FileContract, renewal types.V2FileContractRenewal, renterCost, hostCost, minerFee types.Currency,
	basis types.ChainIndex, renterInputs []types.SiacoinElement, parents []types.V2Transaction,
	first proto4.Object, hostInputs *[]types.V2SiacoinInput,
	readSecond func() (renewalSig, contractSig types.Signature, policies []types.SatisfiedPolicy, err error),
	mkThird func(basis types.ChainIndex, set []types.V2Transaction) (proto4.Object, *types.ChainIndex, *[]types.V2Transaction)) error {

	txn := types.V2Transaction{MinerFee: minerFee}
	var renterSum types.Currency
	for _, sce := range renterInputs {
		txn.SiacoinInputs = append(txn.SiacoinInputs, types.V2SiacoinInput{Parent: sce.Copy()})
		renterSum = renterSum.Add(sce.SiacoinOutput.Value)
	}
	if renterSum.Cmp(renterCost) < 0 {
		h.rpcErr(s, "renter funding too low")
		return nil
	} else if renterSum.Cmp(renterCost) > 0 {
		txn.SiacoinOutputs = append(txn.SiacoinOutputs, types.SiacoinOutput{Address: renewal.NewContract.RenterOutput.Address, Value: renterSum.Sub(renterCost)})
	}
	*hostInputs = h.fakeHostInputs(hostCost, 2)
	if err := h.emit(s, 0, first, func(kind string) bool { return h.hostInputsMut(hostInputs, kind) }); err != nil {
		return err
	}
	txn.SiacoinInputs = append(txn.SiacoinInputs, (*hostInputs)...)
	if sum, ok := sumInputs(*hostInputs); ok && sum.Cmp(hostCost) > 0 {
		txn.SiacoinOutputs = append(txn.SiacoinOutputs, types.SiacoinOutput{Address: renewal.NewContract.HostOutput.Address, Value: sum.Sub(hostCost)})
	}
	renewalSig, contractSig, policies, err := readSecond()
	if err != nil {
		return err
	}
	for i := range policies {
		if i < len(renterInputs) {
			txn.SiacoinInputs[i].SatisfiedPolicy = policies[i]
		}
	}
	renewalSigHash := h.CS.RenewalSigHash(renewal)
	contractSigHash := h.CS.ContractSigHash(renewal.NewContract)
	renewal.RenterSignature = renewalSig
	renewal.HostSignature = h.signer().SignHash(renewalSigHash)
	renewal.NewContract.RenterSignature = contractSig
	renewal.NewContract.HostSignature = h.signer().SignHash(contractSigHash)
	honestNew := renewal.NewContract
	ren := renewal
	txn.FileContractResolutions = []types.V2FileContractResolution{{
		Parent:     types.V2FileContractElement{ID: contractID, StateElement: types.StateElement{LeafIndex: 3, MerkleProof: []types.Hash256{{3}}}, V2FileContract: existing},
		Resolution: &ren,
	}}
	set := append(append([]types.V2Transaction(nil), parents...), txn)
	third, pBasis, pSet := mkThird(basis, set)
	return h.emit(s, 1, third, func(kind string) bool {
		ts := make([]types.V2Transaction, len(*pSet))
		for i := range ts {
			ts[i] = (*pSet)[i].DeepCopy()
		}
		*pSet = ts
		last := &ts[len(ts)-1]
		r := last.FileContractResolutions[0].Resolution.(*types.V2FileContractRenewal)
		c := &r.NewContract
		one := types.NewCurrency64(1)
		switch kind {
		case "set-empty":
			*pSet = nil
		case "set-no-resolution":
			last.FileContractResolutions = nil
		case "set-two-resolutions":
			last.FileContractResolutions = append(last.FileContractResolutions, last.FileContractResolutions[0])
		case "resolution-type":
			last.FileContractResolutions[0].Resolution = &types.V2FileContractExpiration{}
		case "payout-keep-sigs":
			// the third response carries a contract that pays the renter less,
			// with the genuine signatures of the agreed one
			if c.RenterOutput.Value.IsZero() {
				c.HostOutput.Value = c.HostOutput.Value.Add(one)
			} else {
				c.RenterOutput.Value = c.RenterOutput.Value.Sub(one)
				c.HostOutput.Value = c.HostOutput.Value.Add(one)
			}
		case "collateral-keep-sigs":
			c.MissedHostValue = types.ZeroCurrency
			c.TotalCollateral = types.ZeroCurrency
		case "proofheight-keep-sigs":
			c.ProofHeight += 1000
			c.ExpirationHeight += 1000
		case "root-keep-sigs":
			c.FileMerkleRoot[0] ^= 1
		case "renter-key-swap":
			c.RenterPublicKey = OtherKey.PublicKey()
		case "payout-resign":
			c.RenterOutput.Value, c.HostOutput.Value = c.RenterOutput.Value.Sub(one), c.HostOutput.Value.Add(one)
			c.HostSignature = h.signer().SignHash(h.CS.ContractSigHash(*c))
			r.HostSignature = h.signer().SignHash(h.CS.RenewalSigHash(*r))
		case "rollover-keep-sigs":
			r.RenterRollover = r.RenterRollover.Add(one)
		case "renewal-sig-flip":
			r.HostSignature[pmod(h.M.A, 64)] ^= 1 << uint(pmod(h.M.B, 8))
		case "renewal-sig-zero":
			r.HostSignature = types.Signature{}
		case "renewal-sig-wrong-key":
			r.HostSignature = OtherKey.SignHash(renewalSigHash)
		case "renewal-sig-is-contract-sig":
			r.HostSignature = c.HostSignature
		case "basis-alter":
			pBasis.ID[0] ^= 1
		default:
			return h.sigMut(&c.HostSignature, kind, honestNew, existing)
		}
		return true
	})
}

// RenewThirdKinds are the mutation families of the third renewal / refresh
// response.
var RenewThirdKinds = append([]string{"set-empty", "set-no-resolution", "set-two-resolutions", "resolution-type", "payout-keep-sigs", "collateral-keep-sigs", "proofheight-keep-sigs", "root-keep-sigs", "renter-key-swap", "payout-resign", "rollover-keep-sigs", "renewal-sig-flip", "renewal-sig-zero", "renewal-sig-wrong-key", "renewal-sig-is-contract-sig", "basis-alter"}, SigKinds...)

func (h *ByzHost) handleRenew(s net.Conn) error {
	var req proto4.RPCRenewContractRequest
	if err := proto4.ReadRequest(s, &req); err != nil {
		return err
	}
	h.req(req)
	c := h.contract(s, req.Renewal.ContractID)
	if c == nil {
		return nil
	}
	if !req.ValidChallengeSignature(c.Rev) {
		h.rpcErr(s, "invalid challenge signature")
		return nil
	}
	renewal, _ := proto4.RenewContract(c.Rev, req.Prices, h.Addr, req.Renewal)
	renterCost, hostCost := proto4.RenewalCost(h.CS, renewal, req.MinerFee)
	first := &proto4.RPCRenewContractResponse{}
	return h.renewLike(s, req.Renewal.ContractID, c.Rev, renewal, renterCost, hostCost, req.MinerFee, req.Basis, req.RenterInputs, req.RenterParents,
		first, &first.HostInputs,
		func() (types.Signature, types.Signature, []types.SatisfiedPolicy, error) {
			var second proto4.RPCRenewContractSecondResponse
			err := proto4.ReadResponse(s, &second)
			h.req(second)
			return second.RenterRenewalSignature, second.RenterContractSignature, second.RenterSatisfiedPolicies, err
		},
		func(basis types.ChainIndex, set []types.V2Transaction) (proto4.Object, *types.ChainIndex, *[]types.V2Transaction) {
			t := &proto4.RPCRenewContractThirdResponse{Basis: basis, TransactionSet: set}
			return t, &t.Basis, &t.TransactionSet
		})
}

func (h *ByzHost) handleRefresh(s net.Conn, partial bool) error {
	var req proto4.RPCRefreshContractRequest
	if err := proto4.ReadRequest(s, &req); err != nil {
		return err
	}
	h.req(req)
	c := h.contract(s, req.Refresh.ContractID)
	if c == nil {
		return nil
	}
	if !req.ValidChallengeSignature(c.Rev) {
		h.rpcErr(s, "invalid challenge signature")
		return nil
	}
	var renewal types.V2FileContractRenewal
	if partial {
		renewal, _ = proto4.RefreshContractPartialRollover(c.Rev, req.Prices, h.Addr, req.Refresh)
	} else {
		renewal, _ = proto4.RefreshContractFullRollover(c.Rev, req.Prices, h.Addr, req.Refresh)
	}
	renterCost, hostCost := proto4.RefreshCost(h.CS, req.Prices, renewal, req.MinerFee)
	first := &proto4.RPCRefreshContractResponse{}
	return h.renewLike(s, req.Refresh.ContractID, c.Rev, renewal, renterCost, hostCost, req.MinerFee, req.Basis, req.RenterInputs, req.RenterParents,
		first, &first.HostInputs,
		func() (types.Signature, types.Signature, []types.SatisfiedPolicy, error) {
			var second proto4.RPCRefreshContractSecondResponse
			err := proto4.ReadResponse(s, &second)
			h.req(second)
			return second.RenterRenewalSignature, second.RenterContractSignature, second.RenterSatisfiedPolicies, err
		},
		func(basis types.ChainIndex, set []types.V2Transaction) (proto4.Object, *types.ChainIndex, *[]types.V2Transaction) {
			t := &proto4.RPCRefreshContractThirdResponse{Basis: basis, TransactionSet: set}
			return t, &t.Basis, &t.TransactionSet
		})
}

// ---------------------------------------------------------------- catalogue

var proofKinds = []string{"proof-flip", "proof-trunc", "proof-extend", "proof-empty"}

func cat(lists ...[]string) []string {
	var out []string
	for _, l := range lists {
		out = append(out, l...)
	}
	return out
}

// Generic families valid for every typed message.
var genericKinds = append([]string{"rpc-error", "close", "trunc-bytes", "stall"}, GenericKinds...)

// Kinds lists, per client function and per host->renter message, the
// mutation families the ByzHost knows.
var Kinds = map[string][][]string{
	"read": {
		cat(proofKinds, []string{"proof-other-range", "proof-other-sector", "lie-other-sector", "lie-other-range", "len-dec", "len-dec-honest-proof", "len-inc", "len-zero", "len-huge", "len-odd"}, genericKinds),
		{"data-flip", "data-trunc", "data-extend", "data-zero", "data-other-sector", "data-shift", "data-swap-leaves", "close"},
	},
	"write":  {cat([]string{"root-flip", "root-zero", "root-other", "root-unpadded", "root-first-leaf-zeroed"}, genericKinds)},
	"verify": {cat(proofKinds, []string{"leaf-flip", "leaf-zero", "leaf-other-index", "lie-other-index", "lie-other-sector"}, genericKinds)},
	"roots":  {cat(proofKinds, []string{"roots-flip", "roots-trunc", "roots-extend", "roots-empty", "roots-swap", "roots-substitute", "lie-other-range"}, SigKinds, genericKinds)},
	"append": {
		cat([]string{"subtree-flip", "subtree-trunc", "subtree-extend", "subtree-empty", "root-flip", "root-unchanged", "root-reorder", "root-substitute", "root-dup", "root-drop-one", "accepted-trunc", "accepted-extend", "accepted-decline", "accepted-false-lie", "accepted-true-lie"}, genericKinds),
		cat(SigKinds, genericKinds),
	},
	"free": {
		cat([]string{"subtree-flip", "subtree-trunc", "subtree-extend", "subtree-empty", "leaf-flip", "leaf-trunc", "leaf-extend", "leaf-empty", "leaf-swap", "root-flip", "root-unchanged", "root-noswap", "root-keep-one", "lie-other-indices"}, genericKinds),
		cat(SigKinds, genericKinds),
	},
	"fund": {cat([]string{"balances-trunc", "balances-extend", "balances-empty"}, SigKinds, genericKinds)},
	"replenish": {
		cat([]string{"dep-over-target", "dep-all-target", "dep-extra-small", "dep-extra-target", "dep-fewer", "dep-none", "dep-zero-all", "dep-other-account", "dep-overflow"}, genericKinds),
		cat(SigKinds, genericKinds),
	},
	"replpools": {
		cat([]string{"dep-over-target", "dep-all-target", "dep-extra-small", "dep-extra-target", "dep-fewer", "dep-none", "dep-zero-all", "dep-other-account", "dep-overflow"}, genericKinds),
		cat(SigKinds, genericKinds),
	},
	"form":            {cat(HostInputKinds, genericKinds), cat(FormThirdKinds, genericKinds)},
	"renew":           {cat(HostInputKinds, genericKinds), cat(RenewThirdKinds, genericKinds)},
	"refresh-full":    {cat(HostInputKinds, genericKinds), cat(RenewThirdKinds, genericKinds)},
	"refresh-partial": {cat(HostInputKinds, genericKinds), cat(RenewThirdKinds, genericKinds)},
}

// RPCs is the fixed order of client functions.
var RPCs = []string{"read", "write", "verify", "roots", "append", "free", "fund", "replenish", "replpools", "form", "renew", "refresh-full", "refresh-partial"}
