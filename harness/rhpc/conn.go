// Package rhpc is the renter-side / two-party RHP4 kit: an in-memory
// transport, a scripted Byzantine host that answers from ground truth, a typed
// man-in-the-middle, and a small deterministic chain world (real
// chain.Manager, real wallets) for the formation / renewal properties.
package rhpc

import (
	"context"
	"errors"
	"io"
	"net"
	"os"
	"sync"
	"time"

	"go.sia.tech/core/types"
)

// ---------------------------------------------------------------- pipe

// halfPipe is one direction of a duplex in-memory connection: an unbounded
// buffer, so writes never block (the protocols under test are strictly
// request/response, the buffer only ever holds one message or one sector).
type halfPipe struct {
	mu      sync.Mutex
	cond    *sync.Cond
	buf     []byte
	wclosed bool // writer side closed: reader drains, then io.EOF
	rclosed bool // reader side closed: writes fail
}

func newHalfPipe() *halfPipe {
	h := &halfPipe{}
	h.cond = sync.NewCond(&h.mu)
	return h
}

// Conn is one end of an in-memory duplex connection.
type Conn struct {
	rd, wr *halfPipe

	dmu       sync.Mutex
	rdeadline time.Time
	rtimer    *time.Timer
	closed    bool
}

// Pipe returns the two ends of a buffered in-memory duplex connection.
func Pipe() (*Conn, *Conn) {
	ab, ba := newHalfPipe(), newHalfPipe()
	return &Conn{rd: ba, wr: ab}, &Conn{rd: ab, wr: ba}
}

type addr struct{}

func (addr) Network() string { return "mem" }
func (addr) String() string  { return "mem" }

// LocalAddr implements net.Conn.
func (c *Conn) LocalAddr() net.Addr { return addr{} }

// RemoteAddr implements net.Conn.
func (c *Conn) RemoteAddr() net.Addr { return addr{} }

func (c *Conn) readDeadline() time.Time {
	c.dmu.Lock()
	defer c.dmu.Unlock()
	return c.rdeadline
}

// Read implements net.Conn.
func (c *Conn) Read(p []byte) (int, error) {
	h := c.rd
	h.mu.Lock()
	defer h.mu.Unlock()
	for {
		if h.rclosed {
			return 0, net.ErrClosed
		}
		if len(h.buf) > 0 {
			n := copy(p, h.buf)
			h.buf = h.buf[n:]
			if len(h.buf) == 0 {
				h.buf = nil
			}
			return n, nil
		}
		if h.wclosed {
			return 0, io.EOF
		}
		if d := c.readDeadline(); !d.IsZero() && !time.Now().Before(d) {
			return 0, os.ErrDeadlineExceeded
		}
		if len(p) == 0 {
			return 0, nil
		}
		h.cond.Wait()
	}
}

// Write implements net.Conn.
func (c *Conn) Write(p []byte) (int, error) {
	h := c.wr
	h.mu.Lock()
	defer h.mu.Unlock()
	if h.wclosed {
		return 0, net.ErrClosed
	}
	if h.rclosed {
		return 0, io.ErrClosedPipe
	}
	h.buf = append(h.buf, p...)
	h.cond.Broadcast()
	return len(p), nil
}

// Close closes both directions of this end. The peer drains what was written
// and then reads io.EOF; the peer's writes fail.
func (c *Conn) Close() error {
	c.dmu.Lock()
	if c.closed {
		c.dmu.Unlock()
		return nil
	}
	c.closed = true
	if c.rtimer != nil {
		c.rtimer.Stop()
	}
	c.dmu.Unlock()

	c.wr.mu.Lock()
	c.wr.wclosed = true
	c.wr.cond.Broadcast()
	c.wr.mu.Unlock()

	c.rd.mu.Lock()
	c.rd.rclosed = true
	c.rd.buf = nil
	c.rd.cond.Broadcast()
	c.rd.mu.Unlock()
	return nil
}

// SetDeadline implements net.Conn (writes never block, so only the read side
// has an effect).
func (c *Conn) SetDeadline(t time.Time) error { return c.SetReadDeadline(t) }

// SetWriteDeadline implements net.Conn.
func (c *Conn) SetWriteDeadline(time.Time) error { return nil }

// SetReadDeadline implements net.Conn.
func (c *Conn) SetReadDeadline(t time.Time) error {
	c.dmu.Lock()
	defer c.dmu.Unlock()
	if c.closed {
		return net.ErrClosed
	}
	c.rdeadline = t
	if c.rtimer != nil {
		c.rtimer.Stop()
		c.rtimer = nil
	}
	if !t.IsZero() {
		c.rtimer = time.AfterFunc(time.Until(t), func() {
			c.rd.mu.Lock()
			c.rd.cond.Broadcast()
			c.rd.mu.Unlock()
		})
	}
	return nil
}

// ---------------------------------------------------------------- transport

// ErrDial is returned by a Transport whose dial was made to fail.
var ErrDial = errors.New("rhpc: injected stream dial failure")

// Transport is both ends of an in-memory RHP4 transport: the client half
// implements rhp4.TransportClient, the server half rhp4.TransportMux.
type Transport struct {
	peer types.PublicKey

	mu      sync.Mutex
	closed  bool
	dials   int
	open    int // server-side stream ends not yet closed
	idle    *sync.Cond
	accept  chan net.Conn
	closeCh chan struct{}

	// DeadlineScale > 1 compresses the clock of every deadline the CLIENT puts
	// on a stream: a deadline d from now fires after d/DeadlineScale. Deadlines
	// counts the client's SetDeadline calls.
	DeadlineScale int
	Deadlines     int

	// FailDial, when non-nil, is asked before every dial (n counts from 0);
	// a non-nil result is returned to the caller and no stream is created.
	FailDial func(n int) error
	// Interpose, when non-nil, is given the two freshly created ends of every
	// stream (client side, server side) and returns the ends to hand out. It is
	// how the man-in-the-middle gets between the parties.
	Interpose func(n int, client, server net.Conn) (net.Conn, net.Conn)
}

// NewTransport creates a transport whose peer (host) key is hostKey.
func NewTransport(hostKey types.PublicKey) *Transport {
	t := &Transport{peer: hostKey, accept: make(chan net.Conn, 16), closeCh: make(chan struct{})}
	t.idle = sync.NewCond(&t.mu)
	return t
}

// trackedConn reports when the server side closed its end of a stream. The
// repository's server closes the stream after the handler (and therefore every
// deferred clean-up in it) has returned.
type trackedConn struct {
	net.Conn
	once sync.Once
	t    *Transport
}

func (c *trackedConn) Close() error {
	err := c.Conn.Close()
	c.once.Do(func() {
		c.t.mu.Lock()
		c.t.open--
		c.t.idle.Broadcast()
		c.t.mu.Unlock()
	})
	return err
}

// scaledConn is the client's end of a stream with a compressed deadline clock.
type scaledConn struct {
	net.Conn
	t     *Transport
	scale int
}

func (c *scaledConn) squeeze(d time.Time) time.Time {
	c.t.mu.Lock()
	c.t.Deadlines++
	c.t.mu.Unlock()
	if d.IsZero() {
		return d
	}
	return time.Now().Add(time.Until(d) / time.Duration(c.scale))
}

func (c *scaledConn) SetDeadline(d time.Time) error     { return c.Conn.SetDeadline(c.squeeze(d)) }
func (c *scaledConn) SetReadDeadline(d time.Time) error { return c.Conn.SetReadDeadline(c.squeeze(d)) }
func (c *scaledConn) SetWriteDeadline(d time.Time) error {
	return c.Conn.SetWriteDeadline(c.squeeze(d))
}

// DeadlineCalls returns how many deadlines the client has set so far.
func (t *Transport) DeadlineCalls() int {
	t.mu.Lock()
	defer t.mu.Unlock()
	return t.Deadlines
}

// WaitIdle waits until the server side has closed every stream that was
// dialled, i.e. until every handler has fully returned. It is a
// synchronisation point, not a verdict; false means the wait gave up.
func (t *Transport) WaitIdle(max time.Duration) bool {
	timer := time.AfterFunc(max, func() {
		t.mu.Lock()
		t.idle.Broadcast()
		t.mu.Unlock()
	})
	defer timer.Stop()
	deadline := time.Now().Add(max)
	t.mu.Lock()
	defer t.mu.Unlock()
	for t.open > 0 {
		if !time.Now().Before(deadline) {
			return false
		}
		t.idle.Wait()
	}
	return true
}

// DialStream implements rhp4.TransportClient.
func (t *Transport) DialStream(ctx context.Context) (net.Conn, error) {
	t.mu.Lock()
	if t.closed {
		t.mu.Unlock()
		return nil, net.ErrClosed
	}
	n := t.dials
	t.dials++
	fail, inter := t.FailDial, t.Interpose
	t.mu.Unlock()
	if fail != nil {
		if err := fail(n); err != nil {
			return nil, err
		}
	}
	a, b := Pipe()
	var c, s net.Conn = a, b
	if inter != nil {
		c, s = inter(n, a, b)
	}
	t.mu.Lock()
	t.open++
	scale := t.DeadlineScale
	t.mu.Unlock()
	s = &trackedConn{Conn: s, t: t}
	if scale > 1 {
		c = &scaledConn{Conn: c, t: t, scale: scale}
	}
	select {
	case t.accept <- s:
		return c, nil
	case <-t.closeCh:
		c.Close()
		s.Close()
		return nil, net.ErrClosed
	case <-ctx.Done():
		c.Close()
		s.Close()
		return nil, ctx.Err()
	}
}

// Dials returns how many dials were attempted.
func (t *Transport) Dials() int {
	t.mu.Lock()
	defer t.mu.Unlock()
	return t.dials
}

// FrameSize implements rhp4.TransportClient.
func (t *Transport) FrameSize() int { return 4096 }

// SetPeerKey changes the key the transport reports for its peer (the session
// identity of the host).
func (t *Transport) SetPeerKey(k types.PublicKey) {
	t.mu.Lock()
	t.peer = k
	t.mu.Unlock()
}

// PeerKey implements rhp4.TransportClient.
func (t *Transport) PeerKey() types.PublicKey { return t.peer }

// AcceptStream implements rhp4.TransportMux.
func (t *Transport) AcceptStream() (net.Conn, error) {
	select {
	case c := <-t.accept:
		return c, nil
	case <-t.closeCh:
		return nil, net.ErrClosed
	}
}

// Close implements both interfaces.
func (t *Transport) Close() error {
	t.mu.Lock()
	defer t.mu.Unlock()
	if !t.closed {
		t.closed = true
		close(t.closeCh)
	}
	return nil
}
