package rhpc

import (
	"reflect"
	"time"
)

// Generic, reflection-driven mutation of a decoded response message: every
// settable leaf (integer, bool, byte array such as a hash, key or signature)
// and every slice of the message, however deeply nested (transaction sets,
// inputs, contracts, proofs), can be addressed by an index. This is the
// "flip / zero / replace each field, truncate or extend each list" part of
// the property's quantifier; the hand-written families in byzhost.go add the
// semantically aimed lies.

var timeType = reflect.TypeOf(time.Time{})

const maxSliceDescend = 3

type genericTargets struct {
	leaves []reflect.Value
	slices []reflect.Value
}

func (g *genericTargets) walk(v reflect.Value, depth int) {
	if depth > 12 {
		return
	}
	switch v.Kind() {
	case reflect.Ptr:
		if !v.IsNil() {
			g.walk(v.Elem(), depth+1)
		}
	case reflect.Interface:
		if !v.IsNil() && v.Elem().Kind() == reflect.Ptr && !v.Elem().IsNil() {
			g.walk(v.Elem().Elem(), depth+1)
		}
	case reflect.Struct:
		if v.Type() == timeType {
			return
		}
		for i := 0; i < v.NumField(); i++ {
			if f := v.Field(i); f.CanSet() {
				g.walk(f, depth+1)
			}
		}
	case reflect.Slice:
		if !v.CanSet() {
			return
		}
		if v.Type().Elem().Kind() == reflect.Uint8 {
			if v.Len() > 0 {
				g.leaves = append(g.leaves, v)
			}
			return
		}
		g.slices = append(g.slices, v)
		for i := 0; i < v.Len() && i < maxSliceDescend; i++ {
			g.walk(v.Index(i), depth+1)
		}
		if v.Len() > maxSliceDescend { // and the last element
			g.walk(v.Index(v.Len()-1), depth+1)
		}
	case reflect.Array:
		if v.Type().Elem().Kind() == reflect.Uint8 && v.CanSet() {
			g.leaves = append(g.leaves, v)
		}
	case reflect.Uint64, reflect.Uint8, reflect.Uint32, reflect.Uint16, reflect.Uint, reflect.Int, reflect.Int64, reflect.Bool:
		if v.CanSet() {
			g.leaves = append(g.leaves, v)
		}
	}
}

// GenericKinds are the reflection-driven mutation families; A selects the
// leaf or slice, B the bit / variant.
var GenericKinds = []string{"g-flip", "g-zero", "g-inc", "g-max", "g-trunc", "g-extend", "g-dup", "g-swap", "g-empty"}

// IsGeneric reports whether kind is one of GenericKinds.
func IsGeneric(kind string) bool { return len(kind) > 2 && kind[:2] == "g-" }

// genericMutate applies kind to the a-th leaf / slice of msg (a pointer to a
// message struct). It returns how many targets of that class the message has
// (0 = nothing to mutate).
func genericMutate(msg any, kind string, a, b int) int {
	var g genericTargets
	g.walk(reflect.ValueOf(msg), 0)
	switch kind {
	case "g-flip", "g-zero", "g-inc", "g-max":
		n := len(g.leaves)
		if n == 0 {
			return 0
		}
		v := g.leaves[pmod(a, n)]
		switch v.Kind() {
		case reflect.Bool:
			switch kind {
			case "g-zero":
				v.SetBool(false)
			case "g-max":
				v.SetBool(true)
			default:
				v.SetBool(!v.Bool())
			}
		case reflect.Int, reflect.Int64:
			switch kind {
			case "g-flip":
				v.SetInt(v.Int() ^ (1 << uint(pmod(b, 62))))
			case "g-zero":
				v.SetInt(0)
			case "g-inc":
				v.SetInt(v.Int() + 1)
			case "g-max":
				v.SetInt(1<<62 - 1)
			}
		case reflect.Array, reflect.Slice:
			l := v.Len()
			switch kind {
			case "g-flip":
				e := v.Index(pmod(b/8, l))
				e.SetUint(e.Uint() ^ (1 << uint(pmod(b, 8))))
			case "g-zero":
				for i := 0; i < l; i++ {
					v.Index(i).SetUint(0)
				}
			case "g-inc":
				e := v.Index(l - 1)
				e.SetUint((e.Uint() + 1) & 0xff)
			case "g-max":
				for i := 0; i < l; i++ {
					v.Index(i).SetUint(0xff)
				}
			}
		default: // unsigned integers
			bits := v.Type().Bits()
			switch kind {
			case "g-flip":
				v.SetUint(v.Uint() ^ (1 << uint(pmod(b, bits))))
			case "g-zero":
				v.SetUint(0)
			case "g-inc":
				v.SetUint(v.Uint() + 1)
			case "g-max":
				v.SetUint(^uint64(0) >> uint(64-bits))
			}
		}
		return n
	default:
		n := len(g.slices)
		if n == 0 {
			return 0
		}
		v := g.slices[pmod(a, n)]
		l := v.Len()
		cp := reflect.MakeSlice(v.Type(), l, l+1)
		reflect.Copy(cp, v)
		switch kind {
		case "g-trunc":
			if l > 0 {
				cp = cp.Slice(0, l-1)
			}
		case "g-empty":
			cp = reflect.MakeSlice(v.Type(), 0, 0)
		case "g-extend":
			// a zero element, unless the zero value cannot be encoded (spend
			// policies are interfaces): then a copy of the last element
			if !hasInterface(v.Type().Elem(), 0) {
				cp = reflect.Append(cp, reflect.Zero(v.Type().Elem()))
			} else if l > 0 {
				cp = reflect.Append(cp, cp.Index(l-1))
			}
		case "g-dup":
			if l > 0 {
				cp = reflect.Append(cp, cp.Index(pmod(b, l)))
			}
		case "g-swap":
			if l >= 2 {
				i := pmod(b, l)
				j := pmod(i+1, l)
				x := reflect.New(v.Type().Elem()).Elem()
				x.Set(cp.Index(i))
				cp.Index(i).Set(cp.Index(j))
				cp.Index(j).Set(x)
			}
		default:
			return 0
		}
		v.Set(cp)
		return n
	}
}

func hasInterface(t reflect.Type, depth int) bool {
	if depth > 8 {
		return false
	}
	switch t.Kind() {
	case reflect.Interface:
		return true
	case reflect.Ptr, reflect.Slice, reflect.Array:
		return hasInterface(t.Elem(), depth+1)
	case reflect.Struct:
		if t == timeType {
			return false
		}
		for i := 0; i < t.NumField(); i++ {
			if hasInterface(t.Field(i).Type, depth+1) {
				return true
			}
		}
	}
	return false
}
