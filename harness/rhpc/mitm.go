package rhpc

import (
	"errors"
	"fmt"
	"io"
	"net"
	"sync"

	proto4 "go.sia.tech/core/rhp/v4"
	"go.sia.tech/core/types"
)

// Direction of a message on a stream.
const (
	R2H = 0 // renter -> host
	H2R = 1 // host -> renter
)

// Fault is the single fault of a two-party exchange.
//
//	Kind ""        no fault
//	Kind "dial"    the stream dial fails (nothing reaches the host)
//	Kind "cut"     the connection breaks instead of delivering message Index
//	               of direction Dir (the sender "stops at that boundary")
//	Kind "corrupt" message Index of direction Dir is decoded, changed by
//	               mutation Mut/A and re-encoded; everything else is verbatim
type Fault struct {
	Kind  string `json:"kind,omitempty"`
	Dir   int    `json:"dir,omitempty"`
	Index int    `json:"index,omitempty"`
	Mut   string `json:"mut,omitempty"`
	A     int    `json:"a,omitempty"`
}

// Exchange describes the typed messages of one formation-type RPC.
type Exchange struct {
	Name string
	ID   types.Specifier
	// New returns a fresh message object for (direction, index); index 0 of
	// R2H is the request.
	New func(dir, idx int) proto4.Object
}

// Exchanges are the three-step RPCs the MITM understands.
var Exchanges = map[string]Exchange{
	"form": {Name: "form", ID: proto4.RPCFormContractID, New: func(dir, idx int) proto4.Object {
		switch {
		case dir == R2H && idx == 0:
			return new(proto4.RPCFormContractRequest)
		case dir == R2H:
			return new(proto4.RPCFormContractSecondResponse)
		case idx == 0:
			return new(proto4.RPCFormContractResponse)
		}
		return new(proto4.RPCFormContractThirdResponse)
	}},
	"renew": {Name: "renew", ID: proto4.RPCRenewContractID, New: func(dir, idx int) proto4.Object {
		switch {
		case dir == R2H && idx == 0:
			return new(proto4.RPCRenewContractRequest)
		case dir == R2H:
			return new(proto4.RPCRenewContractSecondResponse)
		case idx == 0:
			return new(proto4.RPCRenewContractResponse)
		}
		return new(proto4.RPCRenewContractThirdResponse)
	}},
	"refresh": {Name: "refresh", New: func(dir, idx int) proto4.Object {
		switch {
		case dir == R2H && idx == 0:
			return new(proto4.RPCRefreshContractRequest)
		case dir == R2H:
			return new(proto4.RPCRefreshContractSecondResponse)
		case idx == 0:
			return new(proto4.RPCRefreshContractResponse)
		}
		return new(proto4.RPCRefreshContractThirdResponse)
	}},
}

// MITM sits between the real client and the real server on one stream.
type MITM struct {
	Ex    Exchange
	Fault Fault
	// Mutate changes a decoded message in place; it reports false when it
	// does not know the mutation for this message.
	Mutate func(dir, idx int, msg proto4.Object, f Fault) bool

	mu        sync.Mutex
	Seen      [2]int // messages fully forwarded per direction
	Applied   bool   // the fault's message was reached
	Harness   string
	HostError string // an RPCError the host sent, if any
}

func (m *MITM) note(f func()) {
	m.mu.Lock()
	f()
	m.mu.Unlock()
}

// Status reports what happened.
func (m *MITM) Status() (seen [2]int, applied bool, hostErr, harness string) {
	m.mu.Lock()
	defer m.mu.Unlock()
	return m.Seen, m.Applied, m.HostError, m.Harness
}

// Interpose is a Transport.Interpose hook for the n-th stream only when
// n == stream; other streams pass untouched.
func (m *MITM) Interpose(stream int) func(n int, client, server net.Conn) (net.Conn, net.Conn) {
	return func(n int, client, server net.Conn) (net.Conn, net.Conn) {
		if n != stream || m.Fault.Kind == "" || m.Fault.Kind == "dial" {
			return client, server
		}
		// client <-> mc | ms <-> server
		mc, c2 := Pipe()
		ms, s2 := Pipe()
		// the original pair (client, server) is discarded: hand out fresh
		// ends so that the MITM owns the middle
		client.Close()
		server.Close()
		closeAll := func() { mc.Close(); ms.Close() }
		go m.pump(R2H, mc, ms, closeAll)
		go m.pump(H2R, ms, mc, closeAll)
		return c2, s2
	}
}

func (m *MITM) pump(dir int, src, dst net.Conn, closeAll func()) {
	defer closeAll()
	if m.Fault.Dir != dir {
		io.Copy(dst, src)
		return
	}
	for idx := 0; idx <= m.Fault.Index; idx++ {
		obj := m.Ex.New(dir, idx)
		var id types.Specifier
		var err error
		isReq := dir == R2H && idx == 0
		if isReq {
			if id, err = proto4.ReadID(src); err == nil {
				err = proto4.ReadRequest(src, obj)
			}
		} else {
			err = proto4.ReadResponse(src, obj)
		}
		if err != nil {
			var re *proto4.RPCError
			if !isReq && errors.As(err, &re) {
				m.note(func() { m.HostError = re.Error() })
				proto4.WriteResponse(dst, re)
				break
			}
			return // sender closed or sent something undecodable
		}
		if idx == m.Fault.Index {
			m.note(func() { m.Applied = true })
			if m.Fault.Kind == "cut" {
				return
			}
			if m.Mutate == nil || !m.Mutate(dir, idx, obj, m.Fault) {
				m.note(func() {
					m.Harness = fmt.Sprintf("MITM: unknown mutation %q for %s message dir=%d idx=%d (%T)", m.Fault.Mut, m.Ex.Name, dir, idx, obj)
				})
			}
		}
		if isReq {
			err = proto4.WriteRequest(dst, id, obj)
		} else {
			err = proto4.WriteResponse(dst, obj)
		}
		if err != nil {
			return
		}
		m.note(func() { m.Seen[dir]++ })
	}
	io.Copy(dst, src)
}
