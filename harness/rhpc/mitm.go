package rhpc

import (
	"errors"
	"fmt"
	"io"
	"net"
	"sync"

	proto4 "go.sia.tech/core/rhp/v4"
	"go.sia.tech/core/types"
)

// Direction of a message on a stream.
const (
	R2H = 0 // renter -> host
	H2R = 1 // host -> renter
)

// Fault is the single fault of a two-party exchange.
//
//	Kind ""        no fault
//	Kind "dial"    the stream dial fails (nothing reaches the host)
//	Kind "txpool"  the renter's transaction pool fails to produce the parent
//	               set after the renter funded (nothing reaches the host)
//	Kind "cut"     the connection breaks instead of delivering message Index
//	               of direction Dir (the sender "stops at that boundary")
//	Kind "corrupt" message Index of direction Dir is decoded, changed by
//	               mutation Mut/A and re-encoded; everything else is verbatim
//	Kind "stall"   message Index of direction Dir is withheld and NOTHING is
//	               closed: the other side neither gets an answer nor an end of
//	               stream until the harness calls Release
//	Kind "advance" not a fault of the exchange: while message Index of
//	               direction Dir is in flight the host's chain grows by A
//	               blocks (the message is then delivered unchanged)
type Fault struct {
	Kind  string `json:"kind,omitempty"`
	Dir   int    `json:"dir,omitempty"`
	Index int    `json:"index,omitempty"`
	Mut   string `json:"mut,omitempty"`
	A     int    `json:"a,omitempty"`
}

// Exchange describes the typed messages of one formation-type RPC.
type Exchange struct {
	Name string
	ID   types.Specifier
	// New returns a fresh message object for (direction, index); index 0 of
	// R2H is the request.
	New func(dir, idx int) proto4.Object
}

// Exchanges are the three-step RPCs the MITM understands.
var Exchanges = map[string]Exchange{
	"form": {Name: "form", ID: proto4.RPCFormContractID, New: func(dir, idx int) proto4.Object {
		switch {
		case dir == R2H && idx == 0:
			return new(proto4.RPCFormContractRequest)
		case dir == R2H:
			return new(proto4.RPCFormContractSecondResponse)
		case idx == 0:
			return new(proto4.RPCFormContractResponse)
		}
		return new(proto4.RPCFormContractThirdResponse)
	}},
	"renew": {Name: "renew", ID: proto4.RPCRenewContractID, New: func(dir, idx int) proto4.Object {
		switch {
		case dir == R2H && idx == 0:
			return new(proto4.RPCRenewContractRequest)
		case dir == R2H:
			return new(proto4.RPCRenewContractSecondResponse)
		case idx == 0:
			return new(proto4.RPCRenewContractResponse)
		}
		return new(proto4.RPCRenewContractThirdResponse)
	}},
	"refresh": {Name: "refresh", New: func(dir, idx int) proto4.Object {
		switch {
		case dir == R2H && idx == 0:
			return new(proto4.RPCRefreshContractRequest)
		case dir == R2H:
			return new(proto4.RPCRefreshContractSecondResponse)
		case idx == 0:
			return new(proto4.RPCRefreshContractResponse)
		}
		return new(proto4.RPCRefreshContractThirdResponse)
	}},
}

// MITM sits between the real client and the real server on one stream.
type MITM struct {
	Ex    Exchange
	Fault Fault
	// Mutate changes a decoded message in place; it reports false when it
	// does not know the mutation for this message.
	Mutate func(dir, idx int, msg proto4.Object, f Fault) bool
	// Hook is called for Kind "advance" while the message is held back.
	Hook func()

	stallOnce sync.Once
	stallCh   chan struct{}
	wg        sync.WaitGroup
	mu        sync.Mutex
	Seen      [2]int // messages fully forwarded per direction
	Applied   bool   // the fault's message was reached
	Harness   string
	HostError string // an RPCError the host sent, if any
}

func (m *MITM) note(f func()) {
	m.mu.Lock()
	f()
	m.mu.Unlock()
}

// Release ends a stall (the withheld message is dropped and the stream closed).
func (m *MITM) Release() {
	m.stallOnce.Do(func() {
		m.mu.Lock()
		if m.stallCh == nil {
			m.stallCh = make(chan struct{})
		}
		ch := m.stallCh
		m.mu.Unlock()
		close(ch)
	})
}

func (m *MITM) stallChan() chan struct{} {
	m.mu.Lock()
	defer m.mu.Unlock()
	if m.stallCh == nil {
		m.stallCh = make(chan struct{})
	}
	return m.stallCh
}

// Wait blocks until both directions of every interposed stream have ended
// (and with them any Hook call).
func (m *MITM) Wait() { m.wg.Wait() }

// Status reports what happened.
func (m *MITM) Status() (seen [2]int, applied bool, hostErr, harness string) {
	m.mu.Lock()
	defer m.mu.Unlock()
	return m.Seen, m.Applied, m.HostError, m.Harness
}

// Interpose is a Transport.Interpose hook for the n-th stream only when
// n == stream; other streams pass untouched.
func (m *MITM) Interpose(stream int) func(n int, client, server net.Conn) (net.Conn, net.Conn) {
	return func(n int, client, server net.Conn) (net.Conn, net.Conn) {
		if n != stream || (m.Fault.Kind != "cut" && m.Fault.Kind != "corrupt" && m.Fault.Kind != "advance" && m.Fault.Kind != "stall") {
			return client, server
		}
		// client <-> mc | ms <-> server
		mc, c2 := Pipe()
		ms, s2 := Pipe()
		// the original pair (client, server) is discarded: hand out fresh
		// ends so that the MITM owns the middle
		client.Close()
		server.Close()
		closeAll := func() { mc.Close(); ms.Close() }
		m.wg.Add(2)
		go func() { defer m.wg.Done(); m.pump(R2H, mc, ms, closeAll) }()
		go func() { defer m.wg.Done(); m.pump(H2R, ms, mc, closeAll) }()
		return c2, s2
	}
}

func (m *MITM) pump(dir int, src, dst net.Conn, closeAll func()) {
	defer closeAll()
	if m.Fault.Dir != dir {
		io.Copy(dst, src)
		return
	}
	for idx := 0; idx <= m.Fault.Index; idx++ {
		obj := m.Ex.New(dir, idx)
		var id types.Specifier
		var err error
		isReq := dir == R2H && idx == 0
		if isReq {
			if id, err = proto4.ReadID(src); err == nil {
				err = proto4.ReadRequest(src, obj)
			}
		} else {
			err = proto4.ReadResponse(src, obj)
		}
		if err != nil {
			var re *proto4.RPCError
			if !isReq && errors.As(err, &re) {
				m.note(func() { m.HostError = re.Error() })
				proto4.WriteResponse(dst, re)
				break
			}
			return // sender closed or sent something undecodable
		}
		if idx == m.Fault.Index {
			m.note(func() { m.Applied = true })
			if m.Fault.Kind == "cut" {
				return
			}
			if m.Fault.Kind == "stall" {
				<-m.stallChan()
				return
			}
			if m.Fault.Kind == "advance" {
				if m.Hook != nil {
					m.Hook()
				}
			} else if m.Mutate == nil || !m.Mutate(dir, idx, obj, m.Fault) {
				m.note(func() {
					m.Harness = fmt.Sprintf("MITM: unknown mutation %q for %s message dir=%d idx=%d (%T)", m.Fault.Mut, m.Ex.Name, dir, idx, obj)
				})
			}
		}
		if isReq {
			err = proto4.WriteRequest(dst, id, obj)
		} else {
			err = proto4.WriteResponse(dst, obj)
		}
		if err != nil {
			return
		}
		m.note(func() { m.Seen[dir]++ })
	}
	io.Copy(dst, src)
}

// ---------------------------------------------------------------- mutations

type reqView struct {
	allowance, collateral, minerFee *types.Currency
	basis                           *types.ChainIndex
	inputs                          *[]types.SiacoinElement
	parents                         *[]types.V2Transaction
	prices                          *proto4.HostPrices
	proofHeight                     *uint64
	challenge                       *types.Signature
}

type secondView struct {
	contractSig, renewalSig *types.Signature
	policies                *[]types.SatisfiedPolicy
}

type thirdView struct {
	basis *types.ChainIndex
	set   *[]types.V2Transaction
}

func views(msg proto4.Object) (rq *reqView, hostInputs *[]types.V2SiacoinInput, sec *secondView, th *thirdView) {
	switch m := msg.(type) {
	case *proto4.RPCFormContractRequest:
		rq = &reqView{&m.Contract.Allowance, &m.Contract.Collateral, &m.MinerFee, &m.Basis, &m.RenterInputs, &m.RenterParents, &m.Prices, &m.Contract.ProofHeight, nil}
	case *proto4.RPCRenewContractRequest:
		rq = &reqView{&m.Renewal.Allowance, &m.Renewal.Collateral, &m.MinerFee, &m.Basis, &m.RenterInputs, &m.RenterParents, &m.Prices, &m.Renewal.ProofHeight, &m.ChallengeSignature}
	case *proto4.RPCRefreshContractRequest:
		rq = &reqView{&m.Refresh.Allowance, &m.Refresh.Collateral, &m.MinerFee, &m.Basis, &m.RenterInputs, &m.RenterParents, &m.Prices, nil, &m.ChallengeSignature}
	case *proto4.RPCFormContractResponse:
		hostInputs = &m.HostInputs
	case *proto4.RPCRenewContractResponse:
		hostInputs = &m.HostInputs
	case *proto4.RPCRefreshContractResponse:
		hostInputs = &m.HostInputs
	case *proto4.RPCFormContractSecondResponse:
		sec = &secondView{&m.RenterContractSignature, nil, &m.RenterSatisfiedPolicies}
	case *proto4.RPCRenewContractSecondResponse:
		sec = &secondView{&m.RenterContractSignature, &m.RenterRenewalSignature, &m.RenterSatisfiedPolicies}
	case *proto4.RPCRefreshContractSecondResponse:
		sec = &secondView{&m.RenterContractSignature, &m.RenterRenewalSignature, &m.RenterSatisfiedPolicies}
	case *proto4.RPCFormContractThirdResponse:
		th = &thirdView{&m.Basis, &m.TransactionSet}
	case *proto4.RPCRenewContractThirdResponse:
		th = &thirdView{&m.Basis, &m.TransactionSet}
	case *proto4.RPCRefreshContractThirdResponse:
		th = &thirdView{&m.Basis, &m.TransactionSet}
	}
	return
}

var oneH = types.NewCurrency64(1)

// FormationMutate is the MITM mutation function for form / renew / refresh.
func FormationMutate(dir, idx int, msg proto4.Object, f Fault) bool {
	rq, hostInputs, sec, th := views(msg)
	switch {
	case rq != nil:
		switch f.Mut {
		case "allowance+1":
			*rq.allowance = rq.allowance.Add(oneH)
		case "collateral+1":
			*rq.collateral = rq.collateral.Add(oneH)
		case "minerfee+1":
			*rq.minerFee = rq.minerFee.Add(oneH)
		case "basis-bogus":
			rq.basis.ID[5] ^= 0x40
		case "basis-zero":
			*rq.basis = types.ChainIndex{}
		case "input-proof-flip":
			if len(*rq.inputs) > 0 && len((*rq.inputs)[0].StateElement.MerkleProof) > 0 {
				(*rq.inputs)[0].StateElement.MerkleProof[0][3] ^= 1
			}
		case "input-value+1":
			if len(*rq.inputs) > 0 {
				(*rq.inputs)[0].SiacoinOutput.Value = (*rq.inputs)[0].SiacoinOutput.Value.Add(oneH)
			}
		case "input-id-flip":
			if len(*rq.inputs) > 0 {
				(*rq.inputs)[0].ID[7] ^= 1
			}
		case "inputs-drop":
			*rq.inputs = nil
		case "parents-drop":
			*rq.parents = nil
		case "parent-sig-flip":
			// only effective when the renter's funds are unconfirmed
			if ps := *rq.parents; len(ps) > 0 && len(ps[0].SiacoinInputs) > 0 && len(ps[0].SiacoinInputs[0].SatisfiedPolicy.Signatures) > 0 {
				ps[0].SiacoinInputs[0].SatisfiedPolicy.Signatures[0][5] ^= 1
			}
		case "prices-sig-flip":
			rq.prices.Signature[9] ^= 1
		case "proofheight+1":
			if rq.proofHeight == nil {
				return false
			}
			*rq.proofHeight++
		case "challenge-flip":
			if rq.challenge == nil {
				return false
			}
			rq.challenge[11] ^= 1
		default:
			return false
		}
	case hostInputs != nil:
		in := *hostInputs
		switch f.Mut {
		case "input-value+1":
			if len(in) > 0 {
				in[0].Parent.SiacoinOutput.Value = in[0].Parent.SiacoinOutput.Value.Add(oneH)
			}
		case "input-value-small":
			// the host appears to fund less than its share
			if len(in) > 0 {
				in[0].Parent.SiacoinOutput.Value = oneH
			}
		case "input-id-flip":
			if len(in) > 0 {
				in[0].Parent.ID[7] ^= 1
			}
		case "inputs-drop":
			*hostInputs = nil
		case "input-sig-flip":
			if len(in) > 0 && len(in[0].SatisfiedPolicy.Signatures) > 0 {
				in[0].SatisfiedPolicy.Signatures[0][5] ^= 1
			}
		case "input-proof-flip":
			if len(in) > 0 && len(in[0].Parent.StateElement.MerkleProof) > 0 {
				in[0].Parent.StateElement.MerkleProof[0][3] ^= 1
			}
		default:
			return false
		}
	case sec != nil:
		switch f.Mut {
		case "contract-sig-flip":
			sec.contractSig[13] ^= 1
		case "renewal-sig-flip":
			if sec.renewalSig == nil {
				return false
			}
			sec.renewalSig[13] ^= 1
		case "policy-sig-flip":
			if p := *sec.policies; len(p) > 0 && len(p[0].Signatures) > 0 {
				p[0].Signatures[0][5] ^= 1
			}
		case "policies-drop":
			*sec.policies = nil
		case "policies-extend":
			if p := *sec.policies; len(p) > 0 {
				*sec.policies = append(p, p[0])
			}
		default:
			return false
		}
	case th != nil:
		set := *th.set
		var fc *types.V2FileContract
		var ren *types.V2FileContractRenewal
		if len(set) > 0 {
			last := &set[len(set)-1]
			if len(last.FileContracts) > 0 {
				fc = &last.FileContracts[0]
			}
			if len(last.FileContractResolutions) > 0 {
				if r, ok := last.FileContractResolutions[0].Resolution.(*types.V2FileContractRenewal); ok {
					ren = r
					fc = &r.NewContract
				}
			}
		}
		switch f.Mut {
		case "payout":
			// a contract that pays the renter one hasting less, genuine signatures kept
			if fc != nil && !fc.RenterOutput.Value.IsZero() {
				fc.RenterOutput.Value = fc.RenterOutput.Value.Sub(oneH)
				fc.HostOutput.Value = fc.HostOutput.Value.Add(oneH)
			}
		case "missed-host-value":
			if fc != nil {
				fc.MissedHostValue = fc.MissedHostValue.Add(oneH)
			}
		case "contract-hostsig-flip":
			if fc != nil {
				fc.HostSignature[17] ^= 1
			}
		case "renewal-hostsig-flip":
			if ren == nil {
				return false
			}
			ren.HostSignature[17] ^= 1
		case "last-no-contract":
			// the final transaction arrives without its contract / resolution
			if len(set) > 0 {
				set[len(set)-1].FileContracts = nil
				set[len(set)-1].FileContractResolutions = nil
			}
		case "last-no-inputs":
			if len(set) > 0 {
				set[len(set)-1].SiacoinInputs = nil
			}
		case "set-empty":
			*th.set = nil
		case "set-drop-last":
			if len(set) > 0 {
				*th.set = set[:len(set)-1]
			}
		// the three below damage only auxiliary data of the returned set
		case "aux-basis-flip":
			th.basis.ID[5] ^= 0x40
		case "aux-rentersig-flip":
			if fc != nil {
				fc.RenterSignature[17] ^= 1
			}
		case "aux-inputsig-flip":
			if len(set) > 0 {
				last := &set[len(set)-1]
				if n := len(last.SiacoinInputs); n > 0 && len(last.SiacoinInputs[n-1].SatisfiedPolicy.Signatures) > 0 {
					last.SiacoinInputs[n-1].SatisfiedPolicy.Signatures[0][5] ^= 1
				}
			}
		default:
			return false
		}
	default:
		return false
	}
	return true
}

// FormationMuts lists the MITM mutation families per (direction, index);
// rpc is "form", "renew" or "refresh".
func FormationMuts(rpc string, dir, idx int) []string {
	switch {
	case dir == R2H && idx == 0:
		l := []string{"allowance+1", "collateral+1", "minerfee+1", "basis-bogus", "basis-zero", "input-proof-flip", "input-value+1", "input-id-flip", "inputs-drop", "parents-drop", "parent-sig-flip", "prices-sig-flip"}
		if rpc != "refresh" {
			l = append(l, "proofheight+1")
		}
		if rpc != "form" {
			l = append(l, "challenge-flip")
		}
		return l
	case dir == R2H:
		l := []string{"contract-sig-flip", "policy-sig-flip", "policies-drop", "policies-extend"}
		if rpc != "form" {
			l = append(l, "renewal-sig-flip")
		}
		return l
	case idx == 0:
		return []string{"input-value+1", "input-value-small", "input-id-flip", "inputs-drop", "input-sig-flip", "input-proof-flip"}
	default:
		l := []string{"payout", "missed-host-value", "contract-hostsig-flip", "set-empty", "set-drop-last", "last-no-contract", "last-no-inputs", "aux-basis-flip", "aux-rentersig-flip", "aux-inputsig-flip"}
		if rpc != "form" {
			l = append(l, "renewal-hostsig-flip")
		}
		return l
	}
}
