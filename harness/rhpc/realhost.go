package rhpc

import (
	"fmt"
	"os"
	"sync"
	"time"

	proto4 "go.sia.tech/core/rhp/v4"
	"go.sia.tech/core/types"
	"go.sia.tech/coreutils/chain"
	rhp4 "go.sia.tech/coreutils/rhp/v4"
	"go.sia.tech/coreutils/testutil"
	"go.uber.org/zap"
)

// RecContractor is the repository's reference Contractor plus a record of the
// contracts it was asked to add (formation / renewal sets by value).
type RecContractor struct {
	*testutil.EphemeralContractor

	mu      sync.Mutex
	Added   []rhp4.TransactionSet
	Renewed []rhp4.TransactionSet
}

func cloneSet(s rhp4.TransactionSet) rhp4.TransactionSet {
	out := rhp4.TransactionSet{Basis: s.Basis}
	for _, t := range s.Transactions {
		out.Transactions = append(out.Transactions, t.DeepCopy())
	}
	return out
}

// AddV2Contract implements rhp4.Contractor.
func (rc *RecContractor) AddV2Contract(set rhp4.TransactionSet, u proto4.Usage) error {
	err := rc.EphemeralContractor.AddV2Contract(set, u)
	if err == nil {
		rc.mu.Lock()
		rc.Added = append(rc.Added, cloneSet(set))
		rc.mu.Unlock()
	}
	return err
}

// RenewV2Contract implements rhp4.Contractor.
func (rc *RecContractor) RenewV2Contract(set rhp4.TransactionSet, u proto4.Usage) error {
	err := rc.EphemeralContractor.RenewV2Contract(set, u)
	if err == nil {
		rc.mu.Lock()
		rc.Renewed = append(rc.Renewed, cloneSet(set))
		rc.mu.Unlock()
	}
	return err
}

// Recorded returns how many contracts were added / renewed so far.
func (rc *RecContractor) Recorded() (added, renewed int) {
	rc.mu.Lock()
	defer rc.mu.Unlock()
	return len(rc.Added), len(rc.Renewed)
}

// LastSet returns the most recently recorded set.
func (rc *RecContractor) LastSet(renewal bool) (rhp4.TransactionSet, bool) {
	rc.mu.Lock()
	defer rc.mu.Unlock()
	l := rc.Added
	if renewal {
		l = rc.Renewed
	}
	if len(l) == 0 {
		return rhp4.TransactionSet{}, false
	}
	return cloneSet(l[len(l)-1]), true
}

// Contract returns the host's current revision and roots of a contract that
// is known to exist (it must not be called for unknown ids: the reference
// contractor never unlocks those).
func (rc *RecContractor) Contract(id types.FileContractID) (rhp4.RevisionState, error) {
	st, unlock, err := rc.LockV2Contract(id)
	if err != nil {
		return rhp4.RevisionState{}, err
	}
	st.Roots = append([]types.Hash256(nil), st.Roots...)
	unlock()
	return st, nil
}

// WaitTip waits until the contractor's asynchronous chain subscriber reached
// the manager's tip (synchronisation only, never a verdict).
func (rc *RecContractor) WaitTip(cm *chain.Manager) error {
	deadline := time.Now().Add(20 * time.Second)
	for {
		tip, err := rc.Tip()
		if err != nil {
			return err
		}
		if tip == cm.Tip() {
			return nil
		}
		if time.Now().After(deadline) {
			return fmt.Errorf("contractor did not reach tip %v (at %v)", cm.Tip(), tip)
		}
		time.Sleep(200 * time.Microsecond)
	}
}

// RealHost is the repository's rhp4.Server behind the in-memory transport,
// assembled the way rhp/v4/rpc_test.go does.
type RealHost struct {
	Key        types.PrivateKey
	Server     *rhp4.Server
	Contractor *RecContractor
	Sectors    *testutil.EphemeralSectorStore
	Settings   *testutil.EphemeralSettingsReporter
	T          *Transport

	done chan struct{}
}

// DefaultSettings are the settings the repository's tests use.
func DefaultSettings(walletAddr types.Address) proto4.HostSettings {
	return proto4.HostSettings{
		Release:             "verif",
		AcceptingContracts:  true,
		WalletAddress:       walletAddr,
		MaxCollateral:       types.Siacoins(10000),
		MaxContractDuration: 1000,
		RemainingStorage:    100 * proto4.SectorSize,
		TotalStorage:        100 * proto4.SectorSize,
		Prices: proto4.HostPrices{
			ContractPrice:   types.Siacoins(1).Div64(5),
			StoragePrice:    types.NewCurrency64(100),
			IngressPrice:    types.NewCurrency64(100),
			EgressPrice:     types.NewCurrency64(100),
			Collateral:      types.NewCurrency64(200),
			FreeSectorPrice: types.NewCurrency64(7),
		},
	}
}

// NewRealHost starts a server for hostKey on cm / w and serves it on a fresh
// transport.
func NewRealHost(hostKey types.PrivateKey, cm *chain.Manager, w rhp4.Wallet, settings proto4.HostSettings) *RealHost {
	rh := &RealHost{
		Key:        hostKey,
		Contractor: &RecContractor{EphemeralContractor: testutil.NewEphemeralContractor(cm)},
		Sectors:    testutil.NewEphemeralSectorStore(),
		Settings:   testutil.NewEphemeralSettingsReporter(),
		T:          NewTransport(hostKey.PublicKey()),
		done:       make(chan struct{}),
	}
	rh.Settings.Update(settings)
	rh.Server = rhp4.NewServer(hostKey, cm, rh.Contractor, w, rh.Settings, rh.Sectors, rhp4.WithPriceTableValidity(30*time.Minute))
	go func() {
		defer close(rh.done)
		log := zap.NewNop()
		if os.Getenv("VERIF_RHP_LOG") != "" { // debugging aid: server-side errors
			log, _ = zap.NewDevelopment()
		}
		rh.Server.Serve(rh.T, log)
	}()
	return rh
}

// Close stops accepting, waits for running handlers and stops the contractor.
func (rh *RealHost) Close() {
	rh.T.Close()
	<-rh.done
	rh.Server.Close()
	rh.Contractor.Close()
}

// NoWallet is an rhp4.Wallet for hosts that are never asked to fund anything.
type NoWallet struct{ Addr types.Address }

// Address implements rhp4.Wallet.
func (n NoWallet) Address() types.Address { return n.Addr }

// FundV2Transaction implements rhp4.Wallet.
func (NoWallet) FundV2Transaction(*types.V2Transaction, types.Currency, bool) (types.ChainIndex, []int, error) {
	return types.ChainIndex{}, nil, fmt.Errorf("rhpc: host without wallet")
}

// SignV2Inputs implements rhp4.Wallet.
func (NoWallet) SignV2Inputs(*types.V2Transaction, []int) {}

// ReleaseInputs implements rhp4.Wallet.
func (NoWallet) ReleaseInputs([]types.Transaction, []types.V2Transaction) {}

// BroadcastV2TransactionSet implements rhp4.Wallet.
func (NoWallet) BroadcastV2TransactionSet(types.ChainIndex, []types.V2Transaction) error { return nil }

// RecWallet wraps the host's real wallet and counts what the server asked of
// it (funding = outputs were reserved for an attempt).
type RecWallet struct {
	rhp4.Wallet

	mu         sync.Mutex
	Funded     int
	Released   int
	Broadcasts int
}

// FundV2Transaction implements rhp4.Wallet.
func (rw *RecWallet) FundV2Transaction(txn *types.V2Transaction, amount types.Currency, useUnconfirmed bool) (types.ChainIndex, []int, error) {
	ci, ts, err := rw.Wallet.FundV2Transaction(txn, amount, useUnconfirmed)
	if err == nil && len(ts) > 0 {
		rw.mu.Lock()
		rw.Funded++
		rw.mu.Unlock()
	}
	return ci, ts, err
}

// ReleaseInputs implements rhp4.Wallet.
func (rw *RecWallet) ReleaseInputs(txns []types.Transaction, v2 []types.V2Transaction) {
	rw.mu.Lock()
	rw.Released++
	rw.mu.Unlock()
	rw.Wallet.ReleaseInputs(txns, v2)
}

// BroadcastV2TransactionSet implements rhp4.Wallet.
func (rw *RecWallet) BroadcastV2TransactionSet(ci types.ChainIndex, txns []types.V2Transaction) error {
	err := rw.Wallet.BroadcastV2TransactionSet(ci, txns)
	if err == nil {
		rw.mu.Lock()
		rw.Broadcasts++
		rw.mu.Unlock()
	}
	return err
}

// Counts returns (funded, released, broadcasts).
func (rw *RecWallet) Counts() (int, int, int) {
	rw.mu.Lock()
	defer rw.mu.Unlock()
	return rw.Funded, rw.Released, rw.Broadcasts
}
