package rhpc

import (
	"encoding/binary"
	"sync"

	proto4 "go.sia.tech/core/rhp/v4"
	"go.sia.tech/core/types"
	"golang.org/x/crypto/chacha20"
)

// Sector is a pre-hashed sector: data, 64-leaf subtree roots and root.
type Sector struct {
	Data     *[proto4.SectorSize]byte
	Subtrees []types.Hash256
	Root     types.Hash256
}

// PoolSize is the number of distinct sectors the per-process pool can hand
// out. Hashing a sector costs ~30 ms, so sectors are created lazily and kept.
const PoolSize = 12

var pool [PoolSize]struct {
	once sync.Once
	s    *Sector
}

// PoolSector returns sector i (mod PoolSize) of the per-process pool. Contents
// are a fixed pseudo-random stream keyed by the index, so roots are the same
// in every process and every run.
func PoolSector(i int) *Sector {
	i = ((i % PoolSize) + PoolSize) % PoolSize
	p := &pool[i]
	p.once.Do(func() {
		var key [32]byte
		binary.LittleEndian.PutUint64(key[:], uint64(i)+1)
		copy(key[8:], "verif-rhpc-sector-pool")
		c, err := chacha20.NewUnauthenticatedCipher(key[:], make([]byte, 12))
		if err != nil {
			panic(err)
		}
		data := new([proto4.SectorSize]byte)
		c.XORKeyStream(data[:], data[:])
		sub := proto4.CachedSectorSubtrees(data)
		p.s = &Sector{Data: data, Subtrees: sub, Root: proto4.MetaRoot(sub)}
	})
	return p.s
}

// Leaf returns leaf i of the sector.
func (s *Sector) Leaf(i uint64) (l [proto4.LeafSize]byte) {
	copy(l[:], s.Data[i*proto4.LeafSize:])
	return
}

// RangeProof builds the proof for the byte range [offset, offset+length),
// which must be leaf aligned, the way a host does.
func (s *Sector) RangeProof(offset, length uint64) []types.Hash256 {
	start, end := offset/proto4.LeafSize, (offset+length+proto4.LeafSize-1)/proto4.LeafSize
	segStart, segEnd := proto4.SectorSubtreeRange(start, end)
	return proto4.BuildSectorProof(s.Data[segStart*proto4.LeafSize:segEnd*proto4.LeafSize], start, end, s.Subtrees)
}

// PaddedRoot returns the sector root of data padded with zeros to a full
// sector (what a host stores for a short write).
func PaddedRoot(data []byte) types.Hash256 {
	var buf [proto4.SectorSize]byte
	copy(buf[:], data)
	return proto4.SectorRoot(&buf)
}
