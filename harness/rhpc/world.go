package rhpc

import (
	"crypto/sha256"
	"encoding/binary"
	"fmt"
	"time"

	"go.sia.tech/core/consensus"
	"go.sia.tech/core/types"
	"go.sia.tech/coreutils/chain"
	"go.sia.tech/coreutils/testutil"
	"go.sia.tech/coreutils/wallet"
)

// Key derives a deterministic private key for a role.
func Key(role string) types.PrivateKey {
	seed := sha256.Sum256([]byte("verif-rhpc-key/" + role))
	return types.NewPrivateKeyFromSeed(seed[:])
}

// AddrOf returns the standard address of a key (what SingleAddressWallet
// uses).
func AddrOf(k types.PrivateKey) types.Address {
	return types.StandardUnlockHash(k.PublicKey())
}

// VoidAddr receives block rewards nobody should own.
var VoidAddr = types.Address{0xDE, 0xAD}

// Network is testutil.V2Network (all v2 from height 1) with a short maturity
// delay so a funded world needs only a handful of blocks.
func Network() (*consensus.Network, types.Block) {
	n, g := testutil.V2Network()
	n.MaturityDelay = 2
	return n, g
}

// MineOn assembles a valid child block of cs: reward to addr, the given v2
// transactions, timestamp = parent + 1 s (no wall clock), and a salt that
// makes sibling blocks distinct. Nothing here is random.
func MineOn(cs consensus.State, addr types.Address, txns []types.V2Transaction, salt uint64) types.Block {
	var sb [12]byte
	binary.LittleEndian.PutUint64(sb[:], salt)
	copy(sb[8:], "vrf")
	all := append([]types.V2Transaction{{ArbitraryData: sb[:]}}, txns...)
	b := types.Block{
		ParentID:     cs.Index.ID,
		Timestamp:    cs.PrevTimestamps[0].Add(time.Second),
		MinerPayouts: []types.SiacoinOutput{{Address: addr, Value: cs.BlockReward()}},
		V2:           &types.V2BlockData{Height: cs.Index.Height + 1, Transactions: all},
	}
	for _, t := range txns {
		b.MinerPayouts[0].Value = b.MinerPayouts[0].Value.Add(t.MinerFee)
	}
	b.V2.Commitment = cs.Commitment(addr, nil, b.V2.Transactions)
	factor := cs.NonceFactor()
	for i := 0; i < 1<<24; i++ {
		if b.ID().CmpWork(cs.PoWTarget()) >= 0 {
			return b
		}
		b.Nonce += factor
	}
	panic("rhpc: cannot find nonce")
}

// Node is a real chain.Manager on an in-memory store.
type Node struct {
	Name string
	CM   *chain.Manager
}

// NewNode starts a node at genesis.
func NewNode(name string, n *consensus.Network, genesis types.Block) (*Node, error) {
	store, tipState, err := chain.NewDBStore(chain.NewMemDB(), n, genesis, nil)
	if err != nil {
		return nil, err
	}
	return &Node{Name: name, CM: chain.NewManager(store, tipState)}, nil
}

// Party is a node plus a real SingleAddressWallet whose store is advanced
// synchronously by the harness (no background goroutine decides a verdict).
type Party struct {
	*Node
	Key   types.PrivateKey
	W     *wallet.SingleAddressWallet
	Store *testutil.EphemeralWalletStore
}

// SlowStore is the reference wallet store with database-like latency on the
// read the wallet's coin selection makes.
type SlowStore struct {
	*testutil.EphemeralWalletStore
	Latency time.Duration
}

// UnspentSiacoinElements implements wallet.SingleAddressStore.
func (s *SlowStore) UnspentSiacoinElements() (types.ChainIndex, []types.SiacoinElement, error) {
	time.Sleep(s.Latency)
	return s.EphemeralWalletStore.UnspentSiacoinElements()
}

// NewParty starts a node with a wallet for key.
func NewParty(name string, key types.PrivateKey, n *consensus.Network, genesis types.Block) (*Party, error) {
	return NewPartyLatency(name, key, n, genesis, 0)
}

// NewPartyLatency is NewParty with a wallet store whose reads take latency.
func NewPartyLatency(name string, key types.PrivateKey, n *consensus.Network, genesis types.Block, latency time.Duration) (*Party, error) {
	nd, err := NewNode(name, n, genesis)
	if err != nil {
		return nil, err
	}
	ws := testutil.NewEphemeralWalletStore()
	var store wallet.SingleAddressStore = ws
	if latency > 0 {
		store = &SlowStore{EphemeralWalletStore: ws, Latency: latency}
	}
	w, err := wallet.NewSingleAddressWallet(key, nd.CM, store, &testutil.MockSyncer{})
	if err != nil {
		return nil, err
	}
	return &Party{Node: nd, Key: key, W: w, Store: ws}, nil
}

// Close stops the wallet's background goroutine.
func (p *Party) Close() { p.W.Close() }

// Sync brings the wallet store to the node's tip.
func (p *Party) Sync() error {
	for {
		tip, err := p.Store.Tip()
		if err != nil {
			return err
		}
		if tip == p.CM.Tip() {
			return nil
		}
		reverted, applied, err := p.CM.UpdatesSince(tip, 1000)
		if err != nil {
			return fmt.Errorf("%s: UpdatesSince(%v): %w", p.Name, tip, err)
		}
		if len(reverted) == 0 && len(applied) == 0 {
			return nil
		}
		err = p.Store.UpdateChainState(func(tx wallet.UpdateTx) error {
			return p.W.UpdateChainState(tx, reverted, applied)
		})
		if err != nil {
			return fmt.Errorf("%s: wallet update: %w", p.Name, err)
		}
	}
}

// ProbeReservations checks that nothing is still reserved in the wallet: it
// funds a scratch transaction with everything Balance() reports as spendable
// (plus, with useUnconfirmed, as unconfirmed) and releases it again. Locks on
// unconfirmed outputs are invisible to Balance().Spendable and
// SpendableOutputs, but they make this funding fail. It returns "" when the
// whole amount can be funded.
func (p *Party) ProbeReservations(useUnconfirmed bool) string {
	b, err := p.W.Balance()
	if err != nil {
		return "Balance: " + err.Error()
	}
	amount := b.Spendable
	if useUnconfirmed {
		amount = amount.Add(b.Unconfirmed)
	}
	if amount.IsZero() {
		return ""
	}
	var txn types.V2Transaction
	if _, _, err := p.W.FundV2Transaction(&txn, amount, useUnconfirmed); err != nil {
		return fmt.Sprintf("the wallet reports %v spendable and %v unconfirmed, but funding that amount (useUnconfirmed=%v) fails: %v", b.Spendable, b.Unconfirmed, useUnconfirmed, err)
	}
	p.W.ReleaseInputs(nil, []types.V2Transaction{txn})
	return ""
}

// Addr is the wallet address.
func (p *Party) Addr() types.Address { return p.W.Address() }

// WalletView is what the formation property compares before and after an
// attempt: the ids and values of the spendable outputs and the spendable
// balance.
type WalletView struct {
	Spendable types.Currency
	Outputs   map[types.SiacoinOutputID]types.Currency
}

// View takes a wallet view.
func (p *Party) View() (WalletView, error) {
	b, err := p.W.Balance()
	if err != nil {
		return WalletView{}, err
	}
	outs, err := p.W.SpendableOutputs()
	if err != nil {
		return WalletView{}, err
	}
	v := WalletView{Spendable: b.Spendable, Outputs: map[types.SiacoinOutputID]types.Currency{}}
	for _, o := range outs {
		v.Outputs[o.ID] = o.SiacoinOutput.Value
	}
	return v, nil
}

// Diff describes how b differs from a ("" when equal).
func (a WalletView) Diff(b WalletView) string {
	var missing, extra int
	var lost types.Currency
	for id, v := range a.Outputs {
		if _, ok := b.Outputs[id]; !ok {
			missing++
			lost = lost.Add(v)
		}
	}
	for id := range b.Outputs {
		if _, ok := a.Outputs[id]; !ok {
			extra++
		}
	}
	if missing == 0 && extra == 0 && a.Spendable == b.Spendable {
		return ""
	}
	return fmt.Sprintf("Balance().Spendable %v -> %v; SpendableOutputs %d -> %d (%d no longer spendable worth %v, %d new)",
		a.Spendable, b.Spendable, len(a.Outputs), len(b.Outputs), missing, lost, extra)
}

// FundAndSign adapts a wallet + contract key to rhp4.FormContractSigner the
// way the repository's tests do (unconfirmed outputs allowed).
type FundAndSign struct {
	W  *wallet.SingleAddressWallet
	PK types.PrivateKey
}

// FundV2Transaction implements rhp4.TransactionFunder.
func (fs *FundAndSign) FundV2Transaction(txn *types.V2Transaction, amount types.Currency) (types.ChainIndex, []int, error) {
	return fs.W.FundV2Transaction(txn, amount, true)
}

// RecommendedFee implements rhp4.TransactionFunder.
func (fs *FundAndSign) RecommendedFee() types.Currency { return fs.W.RecommendedFee() }

// ReleaseInputs implements rhp4.TransactionFunder.
func (fs *FundAndSign) ReleaseInputs(txns []types.V2Transaction) { fs.W.ReleaseInputs(nil, txns) }

// SignV2Inputs implements rhp4.TransactionInputSigner.
func (fs *FundAndSign) SignV2Inputs(txn *types.V2Transaction, toSign []int) {
	fs.W.SignV2Inputs(txn, toSign)
}

// SignHash implements rhp4.ContractSigner.
func (fs *FundAndSign) SignHash(h types.Hash256) types.Signature { return fs.PK.SignHash(h) }

// KeySigner is a bare rhp4.ContractSigner.
type KeySigner struct{ K types.PrivateKey }

// SignHash implements rhp4.ContractSigner.
func (k KeySigner) SignHash(h types.Hash256) types.Signature { return k.K.SignHash(h) }
