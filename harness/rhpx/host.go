package rhpx

import (
	"context"
	"crypto/sha256"
	"encoding/binary"
	"errors"
	"fmt"
	"runtime"
	"sync"
	"time"

	"go.sia.tech/core/consensus"
	proto4 "go.sia.tech/core/rhp/v4"
	"go.sia.tech/core/types"
	"go.sia.tech/coreutils/chain"
	rhp4 "go.sia.tech/coreutils/rhp/v4"
	"go.sia.tech/coreutils/testutil"
	"go.sia.tech/coreutils/wallet"
	"go.uber.org/zap"

	"verif/kit"
)

// Watchdog bounds every wait for the host side to finish a handler. Hitting it
// is an infrastructure condition (reported as ErrWatchdog), never a verdict.
const Watchdog = 20 * time.Second

// ErrWatchdog is returned when the host did not finish within Watchdog.
var ErrWatchdog = errors.New("rhpx: watchdog: host handler did not finish")

// Key derives a deterministic private key for a named role.
func Key(role string) types.PrivateKey {
	seed := sha256.Sum256([]byte("verif-rhpx-" + role))
	return types.NewPrivateKeyFromSeed(seed[:])
}

// ---------------------------------------------------------------- sector pool

// PoolSize is the number of pre-hashed sectors every process keeps.
const PoolSize = 16

type poolSector struct {
	Root types.Hash256
	Data *[proto4.SectorSize]byte
}

var (
	poolOnce sync.Once
	pool     [PoolSize]poolSector
)

// SectorLeaf is the content of leaf j of pool sector i (the whole pool is
// defined by this function, so read-back checks need no stored copy).
func SectorLeaf(i int, j uint64) (leaf [proto4.LeafSize]byte) {
	binary.LittleEndian.PutUint32(leaf[0:], uint32(i)+1)
	binary.LittleEndian.PutUint64(leaf[4:], j)
	binary.LittleEndian.PutUint64(leaf[12:], (j+1)*0x9E3779B97F4A7C15^uint64(i+1)*0xC2B2AE3D27D4EB4F)
	leaf[63] = byte(i*31 + 7)
	return
}

func initPool() {
	var wg sync.WaitGroup
	for i := range pool {
		wg.Add(1)
		go func(i int) {
			defer wg.Done()
			d := new([proto4.SectorSize]byte)
			for j := uint64(0); j < proto4.LeavesPerSector; j++ {
				l := SectorLeaf(i, j)
				copy(d[j*proto4.LeafSize:], l[:])
			}
			pool[i] = poolSector{Root: proto4.SectorRoot(d), Data: d}
		}(i)
	}
	wg.Wait()
}

// PoolSector returns pre-hashed sector i (mod PoolSize).
func PoolSector(i int) (types.Hash256, *[proto4.SectorSize]byte) {
	poolOnce.Do(initPool)
	p := pool[((i%PoolSize)+PoolSize)%PoolSize]
	return p.Root, p.Data
}

// PoolIndex returns the pool index of a root, or -1.
func PoolIndex(root types.Hash256) int {
	poolOnce.Do(initPool)
	for i := range pool {
		if pool[i].Root == root {
			return i
		}
	}
	return -1
}

// UnknownRoot returns a root no host stores.
func UnknownRoot(k int) types.Hash256 {
	return types.Hash256(sha256.Sum256([]byte(fmt.Sprintf("verif-unknown-root-%d", k))))
}

// ---------------------------------------------------------------- fixture

// HostConfig parametrises a fixture.
type HostConfig struct {
	Prices          proto4.HostPrices // zero value: DefaultPrices
	PriceValidity   time.Duration     // default 1h
	StoredSectors   int               // how many pool sectors the host stores up front (default PoolSize)
	HostOutputs     int               // matured block rewards for the host wallet (default 4)
	RenterOutputs   int               // matured block rewards for the renter wallet (default 4)
	MaxCollateral   types.Currency    // default 10 KS
	MaxDuration     uint64            // default 1000
	NotAccepting    bool
	ReservationTime time.Duration // wallet reservation duration (default 3h)
}

// DefaultPrices are the prices used by the repository's own tests plus a
// non-zero free-sector price (so that freeing moves value).
func DefaultPrices() proto4.HostPrices {
	return proto4.HostPrices{
		ContractPrice:   types.Siacoins(1).Div64(5),
		StoragePrice:    types.NewCurrency64(100),
		IngressPrice:    types.NewCurrency64(100),
		EgressPrice:     types.NewCurrency64(100),
		Collateral:      types.NewCurrency64(200),
		FreeSectorPrice: types.NewCurrency64(1_000_003),
	}
}

// Host is a real rhp4.Server on the all-v2 test network with the
// repository's reference Contractor / sector store / settings reporter
// (wrapped in recorders), a real chain.Manager and real single-address
// wallets for host and renter, reachable through the in-memory transport.
type Host struct {
	Cfg     HostConfig
	Network *consensus.Network
	Genesis types.Block
	CM      *chain.Manager

	HostKey   types.PrivateKey
	RenterKey types.PrivateKey

	HostWallet    *wallet.SingleAddressWallet
	RenterWallet  *wallet.SingleAddressWallet
	hostStore     *testutil.EphemeralWalletStore
	renterStore   *testutil.EphemeralWalletStore
	hostSyncer    *testutil.MockSyncer
	renterSyncer  *testutil.MockSyncer
	Contractor    *testutil.EphemeralContractor
	SectorStore   *testutil.EphemeralSectorStore
	Settings      *testutil.EphemeralSettingsReporter
	Log           *Log
	RecContractor *RecContractor
	RecSectors    *RecSectors
	RecWallet     *RecWallet

	Server *rhp4.Server
	Mux    *Mux
	Client *Client

	blockSalt uint64
	served    chan error
}

// RecWallet wraps the host's rhp4.Wallet and records funding / release calls.
type RecWallet struct {
	Inner rhp4.Wallet
	Log   *Log
}

// Address implements rhp4.Wallet.
func (w *RecWallet) Address() types.Address { return w.Inner.Address() }

// FundV2Transaction implements rhp4.Wallet.
func (w *RecWallet) FundV2Transaction(txn *types.V2Transaction, amount types.Currency, useUnconfirmed bool) (types.ChainIndex, []int, error) {
	ci, ts, err := w.Inner.FundV2Transaction(txn, amount, useUnconfirmed)
	w.Log.add(Call{Op: "Wallet.FundV2Transaction", Balances: []types.Currency{amount}, Err: errStr(err)})
	return ci, ts, err
}

// SignV2Inputs implements rhp4.Wallet.
func (w *RecWallet) SignV2Inputs(txn *types.V2Transaction, toSign []int) {
	w.Inner.SignV2Inputs(txn, toSign)
}

// ReleaseInputs implements rhp4.Wallet.
func (w *RecWallet) ReleaseInputs(txns []types.Transaction, v2txns []types.V2Transaction) {
	w.Inner.ReleaseInputs(txns, v2txns)
	w.Log.add(Call{Op: "Wallet.ReleaseInputs"})
}

// BroadcastV2TransactionSet implements rhp4.Wallet.
func (w *RecWallet) BroadcastV2TransactionSet(ci types.ChainIndex, txns []types.V2Transaction) error {
	err := w.Inner.BroadcastV2TransactionSet(ci, txns)
	w.Log.add(Call{Op: "Wallet.BroadcastV2TransactionSet", Err: errStr(err)})
	return err
}

// NewHost builds and starts a fixture. Close must be called.
func NewHost(cfg HostConfig) (*Host, error) {
	if cfg.Prices == (proto4.HostPrices{}) {
		cfg.Prices = DefaultPrices()
	}
	if cfg.PriceValidity == 0 {
		cfg.PriceValidity = time.Hour
	}
	if cfg.StoredSectors == 0 {
		cfg.StoredSectors = PoolSize
	}
	if cfg.HostOutputs == 0 {
		cfg.HostOutputs = 4
	}
	if cfg.RenterOutputs == 0 {
		cfg.RenterOutputs = 4
	}
	if cfg.MaxCollateral.IsZero() {
		cfg.MaxCollateral = types.Siacoins(10000)
	}
	if cfg.MaxDuration == 0 {
		cfg.MaxDuration = 1000
	}
	if cfg.ReservationTime == 0 {
		cfg.ReservationTime = 3 * time.Hour
	}
	h := &Host{Cfg: cfg, HostKey: Key("host"), RenterKey: Key("renter"), Log: &Log{}}
	h.Network, h.Genesis = testutil.V2Network()
	store, tipState, err := chain.NewDBStore(chain.NewMemDB(), h.Network, h.Genesis, nil)
	if err != nil {
		return nil, fmt.Errorf("INFRA NewDBStore: %w", err)
	}
	h.CM = chain.NewManager(store, tipState)

	h.hostStore, h.renterStore = testutil.NewEphemeralWalletStore(), testutil.NewEphemeralWalletStore()
	h.hostSyncer, h.renterSyncer = &testutil.MockSyncer{}, &testutil.MockSyncer{}
	h.HostWallet, err = wallet.NewSingleAddressWallet(Key("host-wallet"), h.CM, h.hostStore, h.hostSyncer, wallet.WithReservationDuration(cfg.ReservationTime))
	if err != nil {
		return nil, fmt.Errorf("INFRA host wallet: %w", err)
	}
	h.RenterWallet, err = wallet.NewSingleAddressWallet(Key("renter-wallet"), h.CM, h.renterStore, h.renterSyncer, wallet.WithReservationDuration(cfg.ReservationTime))
	if err != nil {
		return nil, fmt.Errorf("INFRA renter wallet: %w", err)
	}
	h.Contractor = testutil.NewEphemeralContractor(h.CM)
	h.SectorStore = testutil.NewEphemeralSectorStore()
	for i := 0; i < cfg.StoredSectors && i < PoolSize; i++ {
		root, data := PoolSector(i)
		if err := h.SectorStore.StoreSector(root, data, nil, 1<<40); err != nil {
			return nil, fmt.Errorf("INFRA store sector: %w", err)
		}
	}
	h.Settings = testutil.NewEphemeralSettingsReporter()
	h.Settings.Update(proto4.HostSettings{
		Release:             "verif",
		AcceptingContracts:  !cfg.NotAccepting,
		WalletAddress:       h.HostWallet.Address(),
		MaxCollateral:       cfg.MaxCollateral,
		MaxContractDuration: cfg.MaxDuration,
		RemainingStorage:    100 * proto4.SectorSize,
		TotalStorage:        100 * proto4.SectorSize,
		Prices:              cfg.Prices,
	})
	h.RecContractor = &RecContractor{Inner: h.Contractor, Log: h.Log}
	h.RecSectors = &RecSectors{Inner: h.SectorStore, Log: h.Log}
	h.RecWallet = &RecWallet{Inner: h.HostWallet, Log: h.Log}

	// fund both wallets: one matured reward per requested output
	if err := h.Mine(h.HostWallet.Address(), cfg.HostOutputs); err != nil {
		return nil, err
	}
	if err := h.Mine(h.RenterWallet.Address(), cfg.RenterOutputs); err != nil {
		return nil, err
	}
	if err := h.Mine(types.VoidAddress, int(h.Network.MaturityDelay)+1); err != nil {
		return nil, err
	}

	h.Server = rhp4.NewServer(h.HostKey, h.CM, h.RecContractor, h.RecWallet, h.Settings, h.RecSectors, rhp4.WithPriceTableValidity(cfg.PriceValidity))
	h.Mux, h.Client = NewTransport(h.HostKey.PublicKey())
	h.served = make(chan error, 1)
	go func() { h.served <- h.Server.Serve(h.Mux, zap.NewNop()) }()
	return h, nil
}

// Close stops the server and the background goroutines of the fixture.
func (h *Host) Close() {
	if h.Mux != nil {
		h.Mux.Close()
	}
	if h.Server != nil {
		h.Server.Close()
	}
	if h.served != nil {
		select {
		case <-h.served:
		case <-time.After(Watchdog):
		}
	}
	if h.Contractor != nil {
		h.Contractor.Close()
	}
	if h.HostWallet != nil {
		h.HostWallet.Close()
	}
	if h.RenterWallet != nil {
		h.RenterWallet.Close()
	}
}

func syncWallet(cm *chain.Manager, ws *testutil.EphemeralWalletStore, w *wallet.SingleAddressWallet) error {
	for {
		tip, err := ws.Tip()
		if err != nil {
			return err
		}
		reverted, applied, err := cm.UpdatesSince(tip, 1000)
		if err != nil {
			return err
		}
		if len(reverted) == 0 && len(applied) == 0 {
			return nil
		}
		if err := ws.UpdateChainState(func(tx wallet.UpdateTx) error { return w.UpdateChainState(tx, reverted, applied) }); err != nil {
			return err
		}
	}
}

// Mine mines n blocks (deterministic timestamps and ids, including whatever is
// in the transaction pool) paying addr, then brings both wallets and the
// contractor to the new tip.
func (h *Host) Mine(addr types.Address, n int) error {
	for ; n > 0; n-- {
		cs := h.CM.TipState()
		var v2 []types.V2Transaction
		var weight uint64
		for _, txn := range h.CM.V2PoolTransactions() {
			if weight += cs.V2TransactionWeight(txn); weight > cs.MaxBlockWeight()/2 {
				break
			}
			v2 = append(v2, txn)
		}
		h.blockSalt++
		ts := cs.PrevTimestamps[0].Add(time.Second)
		// the v2 arbitrary-data salt keeps ids unique
		salt := types.V2Transaction{ArbitraryData: binary.LittleEndian.AppendUint64(nil, h.blockSalt)}
		b := kit.AssembleBlock(cs, ts, addr, nil, append([]types.V2Transaction{salt}, v2...), h.blockSalt)
		if err := h.CM.AddBlocks([]types.Block{b}); err != nil {
			return fmt.Errorf("INFRA mining: %w", err)
		}
	}
	return h.Sync()
}

// Sync brings wallets and contractor to the manager's tip.
func (h *Host) Sync() error {
	if err := syncWallet(h.CM, h.hostStore, h.HostWallet); err != nil {
		return fmt.Errorf("INFRA host wallet sync: %w", err)
	}
	if err := syncWallet(h.CM, h.renterStore, h.RenterWallet); err != nil {
		return fmt.Errorf("INFRA renter wallet sync: %w", err)
	}
	deadline := time.Now().Add(Watchdog)
	for i := 0; ; i++ {
		tip, err := h.Contractor.Tip()
		if err != nil {
			return err
		}
		if tip == h.CM.Tip() {
			return nil
		}
		if time.Now().After(deadline) {
			return fmt.Errorf("INFRA contractor did not reach tip: %w", ErrWatchdog)
		}
		if i < 100 {
			runtime.Gosched()
		} else {
			time.Sleep(50 * time.Microsecond)
		}
	}
}

// SignPrices returns p signed by the host key (the harness holds the host key,
// so it can produce any table the host could have signed, e.g. an old one).
func (h *Host) SignPrices(p proto4.HostPrices) proto4.HostPrices {
	p.Signature = h.HostKey.SignHash(p.SigHash())
	return p
}

// FetchPrices runs RPCSettings through the transport and returns the signed
// price table.
func (h *Host) FetchPrices() (proto4.HostPrices, error) {
	s, err := rhp4.RPCSettings(context.Background(), h.Client)
	if err != nil {
		return proto4.HostPrices{}, err
	}
	if !h.Client.WaitIdle(Watchdog) {
		return proto4.HostPrices{}, ErrWatchdog
	}
	return s.Prices, nil
}

// Snapshot returns host state by value. It must be called while no handler is
// running (after Client.WaitIdle).
func (h *Host) Snapshot(ids []types.FileContractID, accounts, pools []proto4.Account) Snapshot {
	var s Snapshot
	for _, id := range ids {
		cs := ContractSnap{ID: id}
		rs, unlock, err := h.Contractor.LockV2Contract(id)
		if err != nil {
			cs.Err = err.Error()
		} else {
			cs.Revision = rs.Revision
			cs.Roots = cloneHashes(rs.Roots)
			cs.Revisable, cs.Renewed = rs.Revisable, rs.Renewed
			unlock()
		}
		s.Contracts = append(s.Contracts, cs)
	}
	if len(accounts) > 0 {
		b, _ := h.Contractor.AccountBalances(accounts)
		s.Accounts = append([]types.Currency(nil), b...)
	}
	if len(pools) > 0 {
		b, _ := h.Contractor.PoolBalances(pools)
		s.Pools = append([]types.Currency(nil), b...)
	}
	if m, ok := peekAttached(h.Contractor); ok {
		s.Attached, s.AttachedFromState = m, true
	} else {
		s.Attached = ReplayAttached(h.Log.Since(0))
	}
	return s
}

// RenterSigner adapts the renter wallet + renter key to the client's
// FormContractSigner.
type RenterSigner struct {
	W  *wallet.SingleAddressWallet
	PK types.PrivateKey
}

// FundV2Transaction implements rhp4.TransactionFunder.
func (s *RenterSigner) FundV2Transaction(txn *types.V2Transaction, amount types.Currency) (types.ChainIndex, []int, error) {
	return s.W.FundV2Transaction(txn, amount, true)
}

// RecommendedFee implements rhp4.TransactionFunder.
func (s *RenterSigner) RecommendedFee() types.Currency { return s.W.RecommendedFee() }

// ReleaseInputs implements rhp4.TransactionFunder.
func (s *RenterSigner) ReleaseInputs(txns []types.V2Transaction) { s.W.ReleaseInputs(nil, txns) }

// SignV2Inputs implements rhp4.TransactionInputSigner.
func (s *RenterSigner) SignV2Inputs(txn *types.V2Transaction, toSign []int) {
	s.W.SignV2Inputs(txn, toSign)
}

// SignHash implements rhp4.ContractSigner.
func (s *RenterSigner) SignHash(h types.Hash256) types.Signature { return s.PK.SignHash(h) }

// Signer returns the renter's FormContractSigner.
func (h *Host) Signer() *RenterSigner { return &RenterSigner{W: h.RenterWallet, PK: h.RenterKey} }
