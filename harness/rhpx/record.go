package rhpx

import (
	"fmt"
	"reflect"
	"sort"
	"sync"
	"unsafe"

	proto4 "go.sia.tech/core/rhp/v4"
	"go.sia.tech/core/types"
	rhp4 "go.sia.tech/coreutils/rhp/v4"
)

// Call is one recorded call the server made on a host-side interface. All
// slice arguments are copied at the time of the call.
type Call struct {
	Seq int    // position in the shared log (Contractor and Sectors share one)
	Op  string // method name

	ContractID  types.FileContractID
	Revision    types.V2FileContract
	Roots       []types.Hash256
	Usage       proto4.Usage
	Deposits    []proto4.AccountDeposit
	Account     proto4.Account
	Accounts    []proto4.Account
	Attachments []proto4.PoolAttachment
	Detachments []proto4.PoolDetachment
	Set         rhp4.TransactionSet

	Root           types.Hash256
	Offset, Length uint64
	Expiration     uint64

	Balances []types.Currency // result of balance / credit calls
	OK       bool             // HasSector result
	Err      string           // "" on success
}

// Failed reports whether the call returned an error.
func (c Call) Failed() bool { return c.Err != "" }

// Log is the shared, ordered call log.
type Log struct {
	mu    sync.Mutex
	calls []Call
}

func (l *Log) add(c Call) {
	l.mu.Lock()
	c.Seq = len(l.calls)
	l.calls = append(l.calls, c)
	l.mu.Unlock()
}

// Len returns the number of calls recorded so far.
func (l *Log) Len() int {
	l.mu.Lock()
	defer l.mu.Unlock()
	return len(l.calls)
}

// Since returns a copy of the calls recorded at positions >= from.
func (l *Log) Since(from int) []Call {
	l.mu.Lock()
	defer l.mu.Unlock()
	if from > len(l.calls) {
		from = len(l.calls)
	}
	return append([]Call(nil), l.calls[from:]...)
}

func errStr(err error) string {
	if err == nil {
		return ""
	}
	if s := err.Error(); s != "" {
		return s
	}
	return "error"
}

func cloneHashes(h []types.Hash256) []types.Hash256 { return append([]types.Hash256(nil), h...) }

func cloneSet(ts rhp4.TransactionSet) rhp4.TransactionSet {
	out := rhp4.TransactionSet{Basis: ts.Basis}
	for _, t := range ts.Transactions {
		out.Transactions = append(out.Transactions, t.DeepCopy())
	}
	return out
}

// RecContractor wraps an rhp4.Contractor and records every call.
type RecContractor struct {
	Inner rhp4.Contractor
	Log   *Log
	// FailNext, if set, is consulted before every mutating call; a non-nil
	// error is returned instead of calling Inner (storage-failure injection).
	FailNext func(op string) error
}

var _ rhp4.Contractor = (*RecContractor)(nil)

func (r *RecContractor) inject(op string) error {
	if r.FailNext != nil {
		return r.FailNext(op)
	}
	return nil
}

// LockV2Contract implements rhp4.Contractor.
func (r *RecContractor) LockV2Contract(id types.FileContractID) (rhp4.RevisionState, func(), error) {
	rs, unlock, err := r.Inner.LockV2Contract(id)
	c := Call{Op: "LockV2Contract", ContractID: id, Err: errStr(err)}
	if err == nil {
		c.Revision = rs.Revision
		c.Roots = cloneHashes(rs.Roots)
	}
	r.Log.add(c)
	if err != nil {
		return rs, unlock, err
	}
	return rs, func() {
		unlock()
		r.Log.add(Call{Op: "Unlock", ContractID: id})
	}, nil
}

// AddV2Contract implements rhp4.Contractor.
func (r *RecContractor) AddV2Contract(ts rhp4.TransactionSet, u proto4.Usage) error {
	cp := cloneSet(ts)
	err := r.inject("AddV2Contract")
	if err == nil {
		err = r.Inner.AddV2Contract(ts, u)
	}
	r.Log.add(Call{Op: "AddV2Contract", Set: cp, Usage: u, Err: errStr(err)})
	return err
}

// RenewV2Contract implements rhp4.Contractor.
func (r *RecContractor) RenewV2Contract(ts rhp4.TransactionSet, u proto4.Usage) error {
	cp := cloneSet(ts)
	err := r.inject("RenewV2Contract")
	if err == nil {
		err = r.Inner.RenewV2Contract(ts, u)
	}
	r.Log.add(Call{Op: "RenewV2Contract", Set: cp, Usage: u, Err: errStr(err)})
	return err
}

// ReviseV2Contract implements rhp4.Contractor.
func (r *RecContractor) ReviseV2Contract(id types.FileContractID, rev types.V2FileContract, roots []types.Hash256, u proto4.Usage) error {
	cp := cloneHashes(roots)
	err := r.inject("ReviseV2Contract")
	if err == nil {
		err = r.Inner.ReviseV2Contract(id, rev, roots, u)
	}
	r.Log.add(Call{Op: "ReviseV2Contract", ContractID: id, Revision: rev, Roots: cp, Usage: u, Err: errStr(err)})
	return err
}

// V2FileContractElement implements rhp4.Contractor.
func (r *RecContractor) V2FileContractElement(id types.FileContractID) (types.ChainIndex, types.V2FileContractElement, error) {
	ci, fce, err := r.Inner.V2FileContractElement(id)
	r.Log.add(Call{Op: "V2FileContractElement", ContractID: id, Err: errStr(err)})
	return ci, fce, err
}

// AccountBalance implements rhp4.Contractor.
func (r *RecContractor) AccountBalance(a proto4.Account) (types.Currency, error) {
	b, err := r.Inner.AccountBalance(a)
	r.Log.add(Call{Op: "AccountBalance", Account: a, Balances: []types.Currency{b}, Err: errStr(err)})
	return b, err
}

// AccountBalances implements rhp4.Contractor.
func (r *RecContractor) AccountBalances(as []proto4.Account) ([]types.Currency, error) {
	cp := append([]proto4.Account(nil), as...)
	b, err := r.Inner.AccountBalances(as)
	r.Log.add(Call{Op: "AccountBalances", Accounts: cp, Balances: append([]types.Currency(nil), b...), Err: errStr(err)})
	return b, err
}

// CreditAccountsWithContract implements rhp4.Contractor.
func (r *RecContractor) CreditAccountsWithContract(d []proto4.AccountDeposit, id types.FileContractID, rev types.V2FileContract, u proto4.Usage) ([]types.Currency, error) {
	cp := append([]proto4.AccountDeposit(nil), d...)
	err := r.inject("CreditAccountsWithContract")
	var b []types.Currency
	if err == nil {
		b, err = r.Inner.CreditAccountsWithContract(d, id, rev, u)
	}
	r.Log.add(Call{Op: "CreditAccountsWithContract", Deposits: cp, ContractID: id, Revision: rev, Usage: u, Balances: append([]types.Currency(nil), b...), Err: errStr(err)})
	return b, err
}

// DebitAccount implements rhp4.Contractor.
func (r *RecContractor) DebitAccount(a proto4.Account, u proto4.Usage) error {
	err := r.inject("DebitAccount")
	if err == nil {
		err = r.Inner.DebitAccount(a, u)
	}
	r.Log.add(Call{Op: "DebitAccount", Account: a, Usage: u, Err: errStr(err)})
	return err
}

// PoolBalances implements rhp4.Contractor.
func (r *RecContractor) PoolBalances(as []proto4.Account) ([]types.Currency, error) {
	cp := append([]proto4.Account(nil), as...)
	b, err := r.Inner.PoolBalances(as)
	r.Log.add(Call{Op: "PoolBalances", Accounts: cp, Balances: append([]types.Currency(nil), b...), Err: errStr(err)})
	return b, err
}

// CreditPoolsWithContract implements rhp4.Contractor.
func (r *RecContractor) CreditPoolsWithContract(d []proto4.AccountDeposit, id types.FileContractID, rev types.V2FileContract, u proto4.Usage) ([]types.Currency, error) {
	cp := append([]proto4.AccountDeposit(nil), d...)
	err := r.inject("CreditPoolsWithContract")
	var b []types.Currency
	if err == nil {
		b, err = r.Inner.CreditPoolsWithContract(d, id, rev, u)
	}
	r.Log.add(Call{Op: "CreditPoolsWithContract", Deposits: cp, ContractID: id, Revision: rev, Usage: u, Balances: append([]types.Currency(nil), b...), Err: errStr(err)})
	return b, err
}

// AttachPools implements rhp4.Contractor.
func (r *RecContractor) AttachPools(a []proto4.PoolAttachment) error {
	cp := append([]proto4.PoolAttachment(nil), a...)
	err := r.inject("AttachPools")
	if err == nil {
		err = r.Inner.AttachPools(a)
	}
	r.Log.add(Call{Op: "AttachPools", Attachments: cp, Err: errStr(err)})
	return err
}

// DetachPools implements rhp4.Contractor.
func (r *RecContractor) DetachPools(d []proto4.PoolDetachment) error {
	cp := append([]proto4.PoolDetachment(nil), d...)
	err := r.inject("DetachPools")
	if err == nil {
		err = r.Inner.DetachPools(d)
	}
	r.Log.add(Call{Op: "DetachPools", Detachments: cp, Err: errStr(err)})
	return err
}

// RecSectors wraps an rhp4.Sectors and records every call.
type RecSectors struct {
	Inner rhp4.Sectors
	Log   *Log
}

var _ rhp4.Sectors = (*RecSectors)(nil)

// HasSector implements rhp4.Sectors.
func (r *RecSectors) HasSector(root types.Hash256) (bool, error) {
	ok, err := r.Inner.HasSector(root)
	r.Log.add(Call{Op: "HasSector", Root: root, OK: ok, Err: errStr(err)})
	return ok, err
}

// ReadSector implements rhp4.Sectors.
func (r *RecSectors) ReadSector(root types.Hash256, offset, length uint64) ([]byte, []types.Hash256, error) {
	d, p, err := r.Inner.ReadSector(root, offset, length)
	r.Log.add(Call{Op: "ReadSector", Root: root, Offset: offset, Length: length, Err: errStr(err)})
	return d, p, err
}

// StoreSector implements rhp4.Sectors.
func (r *RecSectors) StoreSector(root types.Hash256, data *[proto4.SectorSize]byte, subtrees []types.Hash256, expiration uint64) error {
	err := r.Inner.StoreSector(root, data, subtrees, expiration)
	r.Log.add(Call{Op: "StoreSector", Root: root, Expiration: expiration, Err: errStr(err)})
	return err
}

// ---------------------------------------------------------------- snapshots

// ContractSnap is the host's view of one contract, by value.
type ContractSnap struct {
	ID        types.FileContractID
	Err       string // LockV2Contract error, if any (then the rest is zero)
	Revision  types.V2FileContract
	Roots     []types.Hash256
	Revisable bool
	Renewed   bool
}

// Snapshot is host state by value: contracts (revision + roots), account and
// pool balances, attachments.
type Snapshot struct {
	Contracts []ContractSnap
	Accounts  []types.Currency // parallel to the accounts asked for
	Pools     []types.Currency
	// Attached is the ordered account -> pools relation. It is read from the
	// reference contractor's own table when available (AttachedFromState =
	// true), else replayed from the recorded successful Attach/Detach calls.
	Attached          map[proto4.Account][]proto4.Account
	AttachedFromState bool
}

// Diff returns "" if the snapshots are equal by content, else the first
// difference.
func (a Snapshot) Diff(b Snapshot) string {
	if len(a.Contracts) != len(b.Contracts) {
		return fmt.Sprintf("contract count %d -> %d", len(a.Contracts), len(b.Contracts))
	}
	for i := range a.Contracts {
		x, y := a.Contracts[i], b.Contracts[i]
		switch {
		case x.ID != y.ID:
			return fmt.Sprintf("contract[%d] id %v -> %v", i, x.ID, y.ID)
		case x.Err != y.Err:
			return fmt.Sprintf("contract[%d] lock error %q -> %q", i, x.Err, y.Err)
		case !reflect.DeepEqual(x.Revision, y.Revision):
			return fmt.Sprintf("contract[%d] revision changed: number %d -> %d, filesize %d -> %d, root %v -> %v, renter %v -> %v, host %v -> %v, missed %v -> %v",
				i, x.Revision.RevisionNumber, y.Revision.RevisionNumber, x.Revision.Filesize, y.Revision.Filesize, x.Revision.FileMerkleRoot, y.Revision.FileMerkleRoot,
				x.Revision.RenterOutput.Value, y.Revision.RenterOutput.Value, x.Revision.HostOutput.Value, y.Revision.HostOutput.Value, x.Revision.MissedHostValue, y.Revision.MissedHostValue)
		case x.Revisable != y.Revisable || x.Renewed != y.Renewed:
			return fmt.Sprintf("contract[%d] revisable/renewed %v/%v -> %v/%v", i, x.Revisable, x.Renewed, y.Revisable, y.Renewed)
		case len(x.Roots) != len(y.Roots):
			return fmt.Sprintf("contract[%d] root count %d -> %d", i, len(x.Roots), len(y.Roots))
		}
		for j := range x.Roots {
			if x.Roots[j] != y.Roots[j] {
				return fmt.Sprintf("contract[%d] roots[%d] %v -> %v (roots %v -> %v)", i, j, x.Roots[j], y.Roots[j], ShortRoots(x.Roots), ShortRoots(y.Roots))
			}
		}
	}
	for i := range a.Accounts {
		if i < len(b.Accounts) && !a.Accounts[i].Equals(b.Accounts[i]) {
			return fmt.Sprintf("account[%d] balance %v -> %v", i, a.Accounts[i].ExactString(), b.Accounts[i].ExactString())
		}
	}
	for i := range a.Pools {
		if i < len(b.Pools) && !a.Pools[i].Equals(b.Pools[i]) {
			return fmt.Sprintf("pool[%d] balance %v -> %v", i, a.Pools[i].ExactString(), b.Pools[i].ExactString())
		}
	}
	if len(a.Accounts) != len(b.Accounts) || len(a.Pools) != len(b.Pools) {
		return "balance vector length changed"
	}
	if d := diffAttached(a.Attached, b.Attached); d != "" {
		return d
	}
	return ""
}

func diffAttached(a, b map[proto4.Account][]proto4.Account) string {
	keys := map[proto4.Account]bool{}
	for k := range a {
		keys[k] = true
	}
	for k := range b {
		keys[k] = true
	}
	var ks []proto4.Account
	for k := range keys {
		ks = append(ks, k)
	}
	sort.Slice(ks, func(i, j int) bool { return string(ks[i][:]) < string(ks[j][:]) })
	for _, k := range ks {
		x, y := a[k], b[k]
		if len(x) != len(y) {
			return fmt.Sprintf("attachments of %v: %d -> %d pools", k, len(x), len(y))
		}
		for i := range x {
			if x[i] != y[i] {
				return fmt.Sprintf("attachments of %v: position %d %v -> %v", k, i, x[i], y[i])
			}
		}
	}
	return ""
}

// ShortRoots renders roots by their first two bytes.
func ShortRoots(r []types.Hash256) string {
	s := "["
	for i, h := range r {
		if i > 0 {
			s += " "
		}
		s += fmt.Sprintf("%02x%02x", h[0], h[1])
	}
	return s + "]"
}

// peekAttached reads the unexported `attached map[Account][]Account` of the
// reference contractor (testutil.EphemeralContractor) by value. It must only
// be called while no handler is running.
func peekAttached(contractor any) (out map[proto4.Account][]proto4.Account, ok bool) {
	defer func() {
		if recover() != nil {
			out, ok = nil, false
		}
	}()
	v := reflect.ValueOf(contractor)
	if v.Kind() != reflect.Pointer || v.Elem().Kind() != reflect.Struct {
		return nil, false
	}
	f := v.Elem().FieldByName("attached")
	if !f.IsValid() || f.Type() != reflect.TypeOf(map[proto4.Account][]proto4.Account{}) {
		return nil, false
	}
	m := *(*map[proto4.Account][]proto4.Account)(unsafe.Pointer(f.UnsafeAddr()))
	out = make(map[proto4.Account][]proto4.Account, len(m))
	for k, v := range m {
		if len(v) > 0 {
			out[k] = append([]proto4.Account(nil), v...)
		}
	}
	return out, true
}

// ReplayAttached derives the attachment relation from the recorded successful
// AttachPools / DetachPools calls (idempotent attach, order-preserving detach).
func ReplayAttached(calls []Call) map[proto4.Account][]proto4.Account {
	out := map[proto4.Account][]proto4.Account{}
	for _, c := range calls {
		if c.Failed() {
			continue
		}
		switch c.Op {
		case "AttachPools":
			for _, a := range c.Attachments {
				dup := false
				for _, p := range out[a.Account] {
					dup = dup || p == a.Pool
				}
				if !dup {
					out[a.Account] = append(out[a.Account], a.Pool)
				}
			}
		case "DetachPools":
			for _, d := range c.Detachments {
				l := out[d.Account]
				for i, p := range l {
					if p == d.Pool {
						out[d.Account] = append(append([]proto4.Account(nil), l[:i]...), l[i+1:]...)
						break
					}
				}
				if len(out[d.Account]) == 0 {
					delete(out, d.Account)
				}
			}
		}
	}
	return out
}
