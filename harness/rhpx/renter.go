package rhpx

import (
	"bytes"
	"context"
	"errors"
	"fmt"
	"io"
	"time"

	"go.sia.tech/core/consensus"
	proto4 "go.sia.tech/core/rhp/v4"
	"go.sia.tech/core/types"
	rhp4 "go.sia.tech/coreutils/rhp/v4"
)

// Abort modes.
const (
	ModeClose = "close" // the renter closes the stream
	ModeStall = "stall" // the renter goes silent; the host's RPC deadline fires
	ModeTrunc = "trunc" // the renter sends half of the message it was about to send, then closes
)

// Script says where (if anywhere) the renter abandons an exchange.
//
// Protocol steps of the renter are numbered from 1: send the request, read the
// first response, send the second message, read the final response (single
// round-trip RPCs have steps 1 and 2 only; the write RPC has an extra "send
// data" step 2). AbortAt = k > 0 means: stop right before performing step k.
// With ModeTrunc (only meaningful when step k is a send) half of message k is
// written first.
type Script struct {
	AbortAt int    `json:"abort_at,omitempty"`
	Mode    string `json:"mode,omitempty"`
}

// Tamper holds optional hooks that make exactly the named part of an exchange
// deviate from the honest protocol; everything else is carried on honestly.
type Tamper struct {
	// Prices alters the price table before it is put into the request.
	Prices func(p *proto4.HostPrices)
	// ChallengeNumber maps the correct revision number for the challenge hash
	// to the one actually signed.
	ChallengeNumber func(n uint64) uint64
	// ChallengeKey signs the challenge instead of the renter key.
	ChallengeKey *types.PrivateKey
	// Request alters the fully built and signed first message.
	Request func(req proto4.Object)
	// Revision alters the revision right before the renter signs it (the
	// renter then signs something else than what the host derives).
	Revision func(rev *types.V2FileContract)
	// SigKey signs the revision instead of the renter key.
	SigKey *types.PrivateKey
	// Signature replaces the renter's revision signature.
	Signature func(sig *types.Signature)
	// AfterFirstResponse, if set, runs in multi-round exchanges right after
	// the renter has read the host's first response and before it sends its
	// second message, i.e. while the host handler is waiting for the renter
	// (and holding whatever it holds). The harness uses it to run another
	// RPC at exactly that point; it does not change any message.
	AfterFirstResponse func()
	// SecondMessage alters the renter's fully built second message (the one
	// carrying its signatures) right before it is sent.
	SecondMessage func(o proto4.Object)
	// DoubleSpend (form / renew / refresh): after the host's first response
	// the renter spends its own funding inputs in another transaction and
	// gets it into the host's pool, then carries on honestly; the finished
	// set then conflicts with the pool.
	DoubleSpend bool
}

func (t *Tamper) prices(p proto4.HostPrices) proto4.HostPrices {
	if t != nil && t.Prices != nil {
		t.Prices(&p)
	}
	return p
}

func (t *Tamper) challenge(r *Renter, n uint64, hash func(uint64) types.Hash256) types.Signature {
	key := r.Key
	if t != nil {
		if t.ChallengeNumber != nil {
			n = t.ChallengeNumber(n)
		}
		if t.ChallengeKey != nil {
			key = *t.ChallengeKey
		}
	}
	return key.SignHash(hash(n))
}

func (t *Tamper) second(o proto4.Object) {
	if t != nil && t.SecondMessage != nil {
		t.SecondMessage(o)
	}
}

func (t *Tamper) between() {
	if t != nil && t.AfterFirstResponse != nil {
		t.AfterFirstResponse()
	}
}

func (t *Tamper) request(o proto4.Object) {
	if t != nil && t.Request != nil {
		t.Request(o)
	}
}

// sign signs rev (after the Revision hook) and returns the signature (after
// the Signature hook). rev itself is not modified.
func (t *Tamper) sign(r *Renter, rev types.V2FileContract) types.Signature {
	key := r.Key
	if t != nil {
		if t.Revision != nil {
			t.Revision(&rev)
		}
		if t.SigKey != nil {
			key = *t.SigKey
		}
	}
	sig := key.SignHash(r.CS().ContractSigHash(rev))
	if t != nil && t.Signature != nil {
		t.Signature(&sig)
	}
	return sig
}

// Contract is the renter's view of a contract.
type Contract struct {
	ID       types.FileContractID
	Revision types.V2FileContract
}

// Result is the generic outcome of one scripted exchange.
type Result struct {
	// Aborted: the script's abort point was reached and performed.
	Aborted bool
	// Done: the renter received every response of the exchange.
	Done bool
	// Err: why the exchange did not complete (host RPC error, transport
	// error, the renter's own refusal to build a message). nil if Done or
	// Aborted.
	Err error
	// RPCErr is the host's error response, if that is what ended the exchange.
	RPCErr *proto4.RPCError
	// Infra is ErrWatchdog if the host handler did not finish in time.
	Infra error
	// LogFrom is the call log position when the exchange started.
	LogFrom int
	// HostBytes is the number of bytes the host wrote on the stream.
	HostBytes int64
}

// Failed reports that the exchange neither completed nor was deliberately
// aborted.
func (r Result) Failed() bool { return !r.Done && !r.Aborted }

func (r Result) String() string {
	switch {
	case r.Infra != nil:
		return "infra: " + r.Infra.Error()
	case r.Done:
		return "done"
	case r.Aborted:
		return "aborted"
	case r.Err != nil:
		return "failed: " + r.Err.Error()
	}
	return "failed"
}

// Renter is the scripted renter. It holds the renter key and talks to one Host
// fixture, either through the repository's RPC* client functions (Honest*) or
// message by message.
type Renter struct {
	H   *Host
	Key types.PrivateKey
}

// NewRenter returns the scripted renter of a fixture.
func NewRenter(h *Host) *Renter { return &Renter{H: h, Key: h.RenterKey} }

// CS returns the current tip state (what both sides hash signatures under).
func (r *Renter) CS() consensus.State { return r.H.CM.TipState() }

var errAborted = errors.New("rhpx: scripted abort")

type exch struct {
	r      *Renter
	conn   *Conn
	script Script
	step   int
	res    *Result
}

func (r *Renter) open(s Script, res *Result) (*exch, error) {
	res.LogFrom = r.H.Log.Len()
	conn, err := r.H.Client.DialConn(context.Background())
	if err != nil {
		res.Err = err
		return nil, err
	}
	return &exch{r: r, conn: conn, script: s, res: res}, nil
}

// next advances the step counter and performs the scripted abort if this is
// the step to stop before. partial is the encoded message about to be sent
// (nil for a read step).
func (x *exch) next(partial []byte) error {
	x.step++
	if x.script.AbortAt != x.step {
		return nil
	}
	x.res.Aborted = true
	switch x.script.Mode {
	case ModeStall:
		x.conn.Peer().Expire()
	case ModeTrunc:
		if len(partial) > 1 {
			x.conn.Write(partial[:len(partial)/2])
		}
		x.conn.Close()
	default:
		x.conn.Close()
	}
	return errAborted
}

func encodeRequest(id types.Specifier, o proto4.Object) []byte {
	var buf bytes.Buffer
	if err := proto4.WriteRequest(&buf, id, o); err != nil {
		panic(err)
	}
	return buf.Bytes()
}

func encodeResponse(o proto4.Object) []byte {
	var buf bytes.Buffer
	if err := proto4.WriteResponse(&buf, o); err != nil {
		panic(err)
	}
	return buf.Bytes()
}

func (x *exch) sendRequest(id types.Specifier, o proto4.Object) error {
	b := encodeRequest(id, o)
	if err := x.next(b); err != nil {
		return err
	}
	_, err := x.conn.Write(b)
	return err
}

func (x *exch) send(o proto4.Object) error {
	b := encodeResponse(o)
	if err := x.next(b); err != nil {
		return err
	}
	_, err := x.conn.Write(b)
	return err
}

func (x *exch) sendRaw(b []byte) error {
	if err := x.next(b); err != nil {
		return err
	}
	_, err := x.conn.Write(b)
	return err
}

func (x *exch) recv(o proto4.Object) error {
	if err := x.next(nil); err != nil {
		return err
	}
	return proto4.ReadResponse(x.conn, o)
}

// finish records the outcome, closes the renter side (unless stalled) and
// waits until the host handler has returned.
func (x *exch) finish(err error) {
	res := x.res
	switch {
	case err == nil:
		res.Done = true
	case errors.Is(err, errAborted):
	default:
		res.Err = err
		var re *proto4.RPCError
		if errors.As(err, &re) {
			res.RPCErr = re
		}
	}
	if !(res.Aborted && x.script.Mode == ModeStall) {
		x.conn.Close()
	}
	// wait until the host has closed its end of THIS stream (its handler has
	// returned and released what it held); other streams may still be open
	// when exchanges are nested or run concurrently
	select {
	case <-x.conn.PeerDone():
	default:
		t := time.NewTimer(Watchdog)
		select {
		case <-x.conn.PeerDone():
		case <-t.C:
			res.Infra = ErrWatchdog
		}
		t.Stop()
	}
	res.HostBytes = x.conn.Peer().Written()
	if res.Aborted && x.script.Mode == ModeStall {
		x.conn.Close()
	}
}

func safeVerify(f func() bool) (ok bool) {
	defer func() {
		if recover() != nil {
			ok = false
		}
	}()
	return f()
}

// ---------------------------------------------------------------- append

// AppendResult is the outcome of an append exchange.
type AppendResult struct {
	Result
	Req      proto4.RPCAppendSectorsRequest
	Resp     proto4.RPCAppendSectorsResponse
	GotResp  bool
	Accepted []types.Hash256
	ProofOK  bool
	// Revision is what an honest renter derives (and, untampered, signs):
	// core's ReviseForAppendSectors on its view with the host's answer.
	Revision  types.V2FileContract
	Usage     proto4.Usage
	RenterSig types.Signature
	HostSig   types.Signature
}

// Append runs RPCAppendSectors message by message.
func (r *Renter) Append(c Contract, prices proto4.HostPrices, roots []types.Hash256, s Script, t *Tamper) (out AppendResult) {
	x, err := r.open(s, &out.Result)
	if err != nil {
		return
	}
	err = func() error {
		req := proto4.RPCAppendSectorsRequest{Prices: t.prices(prices), Sectors: roots, ContractID: c.ID}
		req.ChallengeSignature = t.challenge(r, c.Revision.RevisionNumber+1, req.ChallengeSigHash)
		t.request(&req)
		out.Req = req
		if err := x.sendRequest(proto4.RPCAppendSectorsID, &req); err != nil {
			return err
		}
		if err := x.recv(&out.Resp); err != nil {
			return err
		}
		out.GotResp = true
		t.between()
		if len(out.Resp.Accepted) != len(req.Sectors) {
			return fmt.Errorf("renter: host answered %d accepted flags for %d sectors", len(out.Resp.Accepted), len(req.Sectors))
		}
		for i, ok := range out.Resp.Accepted {
			if ok {
				out.Accepted = append(out.Accepted, req.Sectors[i])
			}
		}
		numSectors := (c.Revision.Filesize + proto4.SectorSize - 1) / proto4.SectorSize
		out.ProofOK = safeVerify(func() bool {
			return proto4.VerifyAppendSectorsProof(numSectors, out.Resp.SubtreeRoots, out.Accepted, c.Revision.FileMerkleRoot, out.Resp.NewMerkleRoot)
		})
		rev, usage, err := proto4.ReviseForAppendSectors(c.Revision, req.Prices, out.Resp.NewMerkleRoot, uint64(len(out.Accepted)))
		if err != nil {
			return fmt.Errorf("renter: cannot revise: %w", err)
		}
		out.Revision, out.Usage = rev, usage
		out.RenterSig = t.sign(r, rev)
		if err := x.send(&proto4.RPCAppendSectorsSecondResponse{RenterSignature: out.RenterSig}); err != nil {
			return err
		}
		var third proto4.RPCAppendSectorsThirdResponse
		if err := x.recv(&third); err != nil {
			return err
		}
		out.HostSig = third.HostSignature
		return nil
	}()
	x.finish(err)
	return
}

// ---------------------------------------------------------------- free

// FreeResult is the outcome of a free-sectors exchange.
type FreeResult struct {
	Result
	Req       proto4.RPCFreeSectorsRequest
	Resp      proto4.RPCFreeSectorsResponse
	GotResp   bool
	ProofOK   bool
	Revision  types.V2FileContract
	Usage     proto4.Usage
	RenterSig types.Signature
	HostSig   types.Signature
}

// Free runs RPCFreeSectors message by message; indices are sent exactly as
// given (no normalisation).
func (r *Renter) Free(c Contract, prices proto4.HostPrices, indices []uint64, s Script, t *Tamper) (out FreeResult) {
	x, err := r.open(s, &out.Result)
	if err != nil {
		return
	}
	err = func() error {
		req := proto4.RPCFreeSectorsRequest{ContractID: c.ID, Prices: t.prices(prices), Indices: indices}
		req.ChallengeSignature = t.challenge(r, c.Revision.RevisionNumber+1, req.ChallengeSigHash)
		t.request(&req)
		out.Req = req
		if err := x.sendRequest(proto4.RPCFreeSectorsID, &req); err != nil {
			return err
		}
		if err := x.recv(&out.Resp); err != nil {
			return err
		}
		out.GotResp = true
		t.between()
		numSectors := c.Revision.Filesize / proto4.SectorSize
		out.ProofOK = safeVerify(func() bool {
			return proto4.VerifyFreeSectorsProof(out.Resp.OldSubtreeHashes, out.Resp.OldLeafHashes, req.Indices, numSectors, c.Revision.FileMerkleRoot, out.Resp.NewMerkleRoot)
		})
		rev, usage, err := proto4.ReviseForFreeSectors(c.Revision, req.Prices, out.Resp.NewMerkleRoot, len(req.Indices))
		if err != nil {
			return fmt.Errorf("renter: cannot revise: %w", err)
		}
		out.Revision, out.Usage = rev, usage
		out.RenterSig = t.sign(r, rev)
		if err := x.send(&proto4.RPCFreeSectorsSecondResponse{RenterSignature: out.RenterSig}); err != nil {
			return err
		}
		var third proto4.RPCFreeSectorsThirdResponse
		if err := x.recv(&third); err != nil {
			return err
		}
		out.HostSig = third.HostSignature
		return nil
	}()
	x.finish(err)
	return
}

// ---------------------------------------------------------------- sector roots

// RootsResult is the outcome of a sector-roots exchange.
type RootsResult struct {
	Result
	Req       proto4.RPCSectorRootsRequest
	Resp      proto4.RPCSectorRootsResponse
	ProofOK   bool
	Revision  types.V2FileContract
	Usage     proto4.Usage
	RenterSig types.Signature
}

// SectorRoots runs RPCSectorRoots message by message.
func (r *Renter) SectorRoots(c Contract, prices proto4.HostPrices, offset, length uint64, s Script, t *Tamper) (out RootsResult) {
	x, err := r.open(s, &out.Result)
	if err != nil {
		return
	}
	err = func() error {
		p := t.prices(prices)
		rev, usage, err := proto4.ReviseForSectorRoots(c.Revision, p, length)
		if err != nil {
			// the renter cannot pay; still send something the host must refuse
			rev = c.Revision
			rev.RevisionNumber++
		}
		out.Revision, out.Usage = rev, usage
		out.RenterSig = t.sign(r, rev)
		req := proto4.RPCSectorRootsRequest{Prices: p, ContractID: c.ID, Offset: offset, Length: length, RenterSignature: out.RenterSig}
		t.request(&req)
		out.Req = req
		if err := x.sendRequest(proto4.RPCSectorRootsID, &req); err != nil {
			return err
		}
		if err := x.recv(&out.Resp); err != nil {
			return err
		}
		numSectors := (c.Revision.Filesize + proto4.SectorSize - 1) / proto4.SectorSize
		out.ProofOK = safeVerify(func() bool {
			return proto4.VerifySectorRootsProof(out.Resp.Proof, out.Resp.Roots, numSectors, req.Offset, req.Offset+req.Length, c.Revision.FileMerkleRoot)
		})
		return nil
	}()
	x.finish(err)
	return
}

// ---------------------------------------------------------------- fund

// FundResult is the outcome of a fund-accounts exchange.
type FundResult struct {
	Result
	Req       proto4.RPCFundAccountsRequest
	Resp      proto4.RPCFundAccountsResponse
	Revision  types.V2FileContract
	Usage     proto4.Usage
	RenterSig types.Signature
	// Unpayable: the renter could not derive a revision itself (overflowing
	// or unaffordable total); it still sent the request with a signature over
	// its current revision number + 1.
	Unpayable bool
}

// Fund runs RPCFundAccounts message by message.
func (r *Renter) Fund(c Contract, deposits []proto4.AccountDeposit, s Script, t *Tamper) (out FundResult) {
	x, err := r.open(s, &out.Result)
	if err != nil {
		return
	}
	err = func() error {
		var total types.Currency
		overflow := false
		for _, d := range deposits {
			var o bool
			total, o = total.AddWithOverflow(d.Amount)
			overflow = overflow || o
		}
		// on overflow `total` is the sum modulo 2^128: exactly what a host that
		// forgets to check the carry would compute, so the adversarial renter
		// signs the revision for that wrapped total
		rev, usage, err := proto4.ReviseForFundAccounts(c.Revision, total)
		out.Unpayable = err != nil || overflow
		if err != nil {
			rev = c.Revision
			rev.RevisionNumber++
			usage = proto4.Usage{}
		}
		out.Revision, out.Usage = rev, usage
		out.RenterSig = t.sign(r, rev)
		req := proto4.RPCFundAccountsRequest{ContractID: c.ID, Deposits: deposits, RenterSignature: out.RenterSig}
		t.request(&req)
		out.Req = req
		if err := x.sendRequest(proto4.RPCFundAccountsID, &req); err != nil {
			return err
		}
		return x.recv(&out.Resp)
	}()
	x.finish(err)
	return
}

// ---------------------------------------------------------------- replenish

// ReplenishResult is the outcome of a replenish (accounts or pools) exchange.
type ReplenishResult struct {
	Result
	Req     proto4.RPCReplenishAccountsRequest
	Resp    proto4.RPCReplenishAccountsResponse
	GotResp bool
	// NoOp: the host answered that nothing needs depositing; no revision.
	NoOp bool
	// Overflow: the deposits the host announced do not fit 128 bits; the
	// renter signed for their sum modulo 2^128.
	Overflow  bool
	Revision  types.V2FileContract
	Usage     proto4.Usage
	RenterSig types.Signature
	HostSig   types.Signature
}

// Replenish runs RPCReplenishAccounts (pools=false) or RPCReplenishPools
// (pools=true) message by message.
func (r *Renter) Replenish(c Contract, pools bool, keys []proto4.Account, target types.Currency, s Script, t *Tamper) (out ReplenishResult) {
	x, err := r.open(s, &out.Result)
	if err != nil {
		return
	}
	err = func() error {
		req := proto4.RPCReplenishAccountsRequest{Accounts: keys, Target: target, ContractID: c.ID}
		req.ChallengeSignature = t.challenge(r, c.Revision.RevisionNumber, req.ChallengeSigHash)
		t.request(&req)
		out.Req = req
		id := proto4.RPCReplenishAccountsID
		if pools {
			id = proto4.RPCReplenishPoolsID
		}
		if err := x.sendRequest(id, &req); err != nil {
			return err
		}
		if err := x.recv(&out.Resp); err != nil {
			return err
		}
		out.GotResp = true
		t.between()
		var total types.Currency
		for _, d := range out.Resp.Deposits {
			var o bool
			// an overflowing sum wraps: the renter goes on with the wrapped
			// total, which is what a host that drops the carry would charge
			if total, o = total.AddWithOverflow(d.Amount); o {
				out.Overflow = true
			}
		}
		if total.IsZero() {
			out.NoOp = true
			return nil
		}
		rev, usage, err := proto4.ReviseForReplenish(c.Revision, total)
		if err != nil {
			return fmt.Errorf("renter: cannot revise: %w", err)
		}
		out.Revision, out.Usage = rev, usage
		out.RenterSig = t.sign(r, rev)
		if err := x.send(&proto4.RPCReplenishAccountsSecondResponse{RenterSignature: out.RenterSig}); err != nil {
			return err
		}
		var third proto4.RPCReplenishAccountsThirdResponse
		if err := x.recv(&third); err != nil {
			return err
		}
		out.HostSig = third.HostSignature
		return nil
	}()
	x.finish(err)
	return
}

// ---------------------------------------------------------------- attach / detach

// Attach sends the given attachments verbatim.
func (r *Renter) Attach(atts []proto4.PoolAttachment, s Script) (out Result) {
	x, err := r.open(s, &out)
	if err != nil {
		return
	}
	err = func() error {
		if err := x.sendRequest(proto4.RPCAttachPoolsID, &proto4.RPCAttachPoolsRequest{Attachments: atts}); err != nil {
			return err
		}
		return x.recv(&proto4.RPCAttachPoolsResponse{})
	}()
	x.finish(err)
	return
}

// Detach sends the given detachments verbatim.
func (r *Renter) Detach(dets []proto4.PoolDetachment, s Script) (out Result) {
	x, err := r.open(s, &out)
	if err != nil {
		return
	}
	err = func() error {
		if err := x.sendRequest(proto4.RPCDetachPoolsID, &proto4.RPCDetachPoolsRequest{Detachments: dets}); err != nil {
			return err
		}
		return x.recv(&proto4.RPCDetachPoolsResponse{})
	}()
	x.finish(err)
	return
}

// ---------------------------------------------------------------- read / write / verify

// ReadResult is the outcome of a read-sector exchange.
type ReadResult struct {
	Result
	Resp    proto4.RPCReadSectorResponse
	Data    []byte
	ProofOK bool
}

// Read runs RPCReadSector message by message.
func (r *Renter) Read(prices proto4.HostPrices, token proto4.AccountToken, root types.Hash256, offset, length uint64, s Script) (out ReadResult) {
	x, err := r.open(s, &out.Result)
	if err != nil {
		return
	}
	err = func() error {
		req := proto4.RPCReadSectorRequest{Prices: prices, Token: token, Root: root, Offset: offset, Length: length}
		if err := x.sendRequest(proto4.RPCReadSectorID, &req); err != nil {
			return err
		}
		if err := x.recv(&out.Resp); err != nil {
			return err
		}
		if out.Resp.DataLength > proto4.SectorSize {
			return fmt.Errorf("renter: host announces %d bytes", out.Resp.DataLength)
		}
		out.Data = make([]byte, out.Resp.DataLength)
		if _, err := io.ReadFull(x.conn, out.Data); err != nil {
			return fmt.Errorf("renter: short data: %w", err)
		}
		start := offset / proto4.LeafSize
		end := (offset + length + proto4.LeafSize - 1) / proto4.LeafSize
		out.ProofOK = safeVerify(func() bool {
			rpv := proto4.NewRangeProofVerifier(start, end)
			if _, err := rpv.ReadFrom(bytes.NewReader(out.Data)); err != nil {
				return false
			}
			return rpv.Verify(out.Resp.Proof, root)
		})
		return nil
	}()
	x.finish(err)
	return
}

// WriteResult is the outcome of a write-sector exchange.
type WriteResult struct {
	Result
	Root types.Hash256
}

// Write runs RPCWriteSector message by message: request (step 1), data
// (step 2), response (step 3). sendLen bytes of data are announced; data is
// what is actually sent.
func (r *Renter) Write(prices proto4.HostPrices, token proto4.AccountToken, data []byte, announce uint64, s Script) (out WriteResult) {
	x, err := r.open(s, &out.Result)
	if err != nil {
		return
	}
	err = func() error {
		req := proto4.RPCWriteSectorRequest{Prices: prices, Token: token, DataLength: announce}
		if err := x.sendRequest(proto4.RPCWriteSectorID, &req); err != nil {
			return err
		}
		if err := x.sendRaw(data); err != nil {
			return err
		}
		var resp proto4.RPCWriteSectorResponse
		if err := x.recv(&resp); err != nil {
			return err
		}
		out.Root = resp.Root
		return nil
	}()
	x.finish(err)
	return
}

// VerifyResult is the outcome of a verify-sector exchange.
type VerifyResult struct {
	Result
	Resp    proto4.RPCVerifySectorResponse
	ProofOK bool
}

// Verify runs RPCVerifySector message by message with a chosen leaf index.
func (r *Renter) Verify(prices proto4.HostPrices, token proto4.AccountToken, root types.Hash256, leaf uint64, s Script) (out VerifyResult) {
	x, err := r.open(s, &out.Result)
	if err != nil {
		return
	}
	err = func() error {
		req := proto4.RPCVerifySectorRequest{Prices: prices, Token: token, Root: root, LeafIndex: leaf}
		if err := x.sendRequest(proto4.RPCVerifySectorID, &req); err != nil {
			return err
		}
		if err := x.recv(&out.Resp); err != nil {
			return err
		}
		out.ProofOK = safeVerify(func() bool { return proto4.VerifyLeafProof(out.Resp.Proof, out.Resp.Leaf, leaf, root) })
		return nil
	}()
	x.finish(err)
	return
}

// ---------------------------------------------------------------- simple queries

// LatestRevision runs RPCLatestRevision through the repository's client.
func (r *Renter) LatestRevision(id types.FileContractID) (proto4.RPCLatestRevisionResponse, error) {
	resp, err := rhp4.RPCLatestRevision(context.Background(), r.H.Client, id)
	if !r.H.Client.WaitIdle(Watchdog) {
		return resp, ErrWatchdog
	}
	return resp, err
}

// Balance runs RPCAccountBalance through the repository's client.
func (r *Renter) Balance(a proto4.Account) (types.Currency, error) {
	b, err := rhp4.RPCAccountBalance(context.Background(), r.H.Client, a)
	if !r.H.Client.WaitIdle(Watchdog) {
		return b, ErrWatchdog
	}
	return b, err
}

// Token returns an account token for key valid at this host.
func (r *Renter) Token(key types.PrivateKey) proto4.AccountToken {
	return proto4.NewAccountToken(key, r.H.HostKey.PublicKey())
}
