package rhpx

import (
	"errors"
	"fmt"

	proto4 "go.sia.tech/core/rhp/v4"
	"go.sia.tech/core/types"
	rhp4 "go.sia.tech/coreutils/rhp/v4"
)

// doubleSpend spends the given renter inputs in a separate transaction (paying
// the void address) and submits it to the pool the host validates against.
func (r *Renter) doubleSpend(basis types.ChainIndex, inputs []types.SiacoinElement) error {
	var sum types.Currency
	txn := types.V2Transaction{MinerFee: types.Siacoins(1)}
	toSign := make([]int, 0, len(inputs))
	for i, in := range inputs {
		txn.SiacoinInputs = append(txn.SiacoinInputs, types.V2SiacoinInput{Parent: in.Copy()})
		sum = sum.Add(in.SiacoinOutput.Value)
		toSign = append(toSign, i)
	}
	if sum.Cmp(txn.MinerFee) <= 0 {
		return errors.New("renter: inputs too small to double-spend")
	}
	txn.SiacoinOutputs = []types.SiacoinOutput{{Address: types.VoidAddress, Value: sum.Sub(txn.MinerFee)}}
	r.H.RenterWallet.SignV2Inputs(&txn, toSign)
	_, err := r.H.CM.AddV2PoolTransactions(basis, []types.V2Transaction{txn})
	return err
}

// FormResult is the outcome of a form-contract exchange.
type FormResult struct {
	Result
	Req      proto4.RPCFormContractRequest
	Expected types.V2FileContract // core's NewContract for the parameters sent, unsigned
	Usage    proto4.Usage
	Contract Contract // id + contract with both signatures (only if Done)
	Set      rhp4.TransactionSet
	// SignaturesSent: the renter's signatures left the renter (the host may
	// have committed even if the renter did not see the final response).
	SignaturesSent bool
}

// Form runs RPCFormContract message by message, funding from the renter wallet.
func (r *Renter) Form(prices proto4.HostPrices, params proto4.RPCFormContractParams, s Script, t *Tamper) (out FormResult) {
	h := r.H
	signer := h.Signer()
	cs := r.CS()
	p := t.prices(prices)
	fc, usage := proto4.NewContract(p, params, h.HostKey.PublicKey(), h.HostWallet.Address())
	out.Expected, out.Usage = fc, usage
	txn := types.V2Transaction{MinerFee: signer.RecommendedFee().Mul64(1000), FileContracts: []types.V2FileContract{fc}}
	renterCost, _ := proto4.ContractCost(cs, fc, txn.MinerFee)
	basis, toSign, err := signer.FundV2Transaction(&txn, renterCost)
	if err != nil {
		out.LogFrom = h.Log.Len()
		out.Err = fmt.Errorf("renter: cannot fund: %w", err)
		return
	}
	release := func() { signer.ReleaseInputs([]types.V2Transaction{txn}) }
	basis, set, err := h.CM.V2TransactionSet(basis, txn)
	if err != nil {
		release()
		out.LogFrom = h.Log.Len()
		out.Err = fmt.Errorf("renter: transaction set: %w", err)
		return
	}
	txn, set = set[len(set)-1], set[:len(set)-1]
	var inputs []types.SiacoinElement
	for _, in := range txn.SiacoinInputs {
		inputs = append(inputs, in.Parent.Copy())
	}
	x, err := r.open(s, &out.Result)
	if err != nil {
		release()
		return
	}
	err = func() error {
		req := proto4.RPCFormContractRequest{Prices: p, Contract: params, Basis: basis, MinerFee: txn.MinerFee, RenterInputs: inputs, RenterParents: set}
		t.request(&req)
		out.Req = req
		if err := x.sendRequest(proto4.RPCFormContractID, &req); err != nil {
			return err
		}
		var hostInputs proto4.RPCFormContractResponse
		if err := x.recv(&hostInputs); err != nil {
			return err
		}
		t.between()
		if t != nil && t.DoubleSpend {
			if err := r.doubleSpend(basis, inputs); err != nil {
				return fmt.Errorf("renter: double spend not accepted by the pool: %w", err)
			}
		}
		var sum types.Currency
		for _, si := range hostInputs.HostInputs {
			sum = sum.Add(si.Parent.SiacoinOutput.Value)
			txn.SiacoinInputs = append(txn.SiacoinInputs, si)
		}
		if n := sum.Cmp(fc.TotalCollateral); n < 0 {
			return errors.New("renter: host underfunded")
		} else if n > 0 {
			txn.SiacoinOutputs = append(txn.SiacoinOutputs, types.SiacoinOutput{Address: fc.HostOutput.Address, Value: sum.Sub(fc.TotalCollateral)})
		}
		signer.SignV2Inputs(&txn, toSign)
		sig := t.sign(r, fc)
		fc.RenterSignature = sig
		second := proto4.RPCFormContractSecondResponse{RenterContractSignature: sig}
		for _, si := range txn.SiacoinInputs[:len(inputs)] {
			second.RenterSatisfiedPolicies = append(second.RenterSatisfiedPolicies, si.SatisfiedPolicy)
		}
		t.second(&second)
		if err := x.send(&second); err != nil {
			return err
		}
		out.SignaturesSent = true
		var third proto4.RPCFormContractThirdResponse
		if err := x.recv(&third); err != nil {
			return err
		}
		if len(third.TransactionSet) == 0 {
			return errors.New("renter: empty transaction set")
		}
		hostTxn := third.TransactionSet[len(third.TransactionSet)-1]
		if len(hostTxn.FileContracts) != 1 {
			return errors.New("renter: expected one contract")
		}
		fc.HostSignature = hostTxn.FileContracts[0].HostSignature
		out.Contract = Contract{ID: hostTxn.V2FileContractID(hostTxn.ID(), 0), Revision: fc}
		out.Set = rhp4.TransactionSet{Basis: third.Basis, Transactions: third.TransactionSet}
		return nil
	}()
	x.finish(err)
	if !out.SignaturesSent || out.RPCErr != nil {
		release()
	}
	return
}

// RenewResult is the outcome of a renew or refresh exchange.
type RenewResult struct {
	Result
	Kind     string                      // renew | refresh-full | refresh-partial
	Expected types.V2FileContractRenewal // core's Renew/Refresh on the renter's view, unsigned
	Usage    proto4.Usage
	// HostRenewal is the renewal in the set the host returned (if Done).
	HostRenewal    types.V2FileContractRenewal
	NewContract    Contract
	Set            rhp4.TransactionSet
	SignaturesSent bool
}

// RenewArgs carries the parameters of the three renewal flavours.
type RenewArgs struct {
	Kind        string // renew | refresh-full | refresh-partial
	Allowance   types.Currency
	Collateral  types.Currency
	ProofHeight uint64 // renew only
}

// Renew runs RPCRenewContract / RPCRefreshContract / RPCRefreshPartial message
// by message, funding from the renter wallet.
func (r *Renter) Renew(c Contract, prices proto4.HostPrices, a RenewArgs, s Script, t *Tamper) (out RenewResult) {
	h := r.H
	signer := h.Signer()
	cs := r.CS()
	p := t.prices(prices)
	out.Kind = a.Kind
	hostAddr := h.HostWallet.Address()
	var renewal types.V2FileContractRenewal
	var usage proto4.Usage
	var rpcID types.Specifier
	renewParams := proto4.RPCRenewContractParams{ContractID: c.ID, Allowance: a.Allowance, Collateral: a.Collateral, ProofHeight: a.ProofHeight}
	refreshParams := proto4.RPCRefreshContractParams{ContractID: c.ID, Allowance: a.Allowance, Collateral: a.Collateral}
	txn := types.V2Transaction{MinerFee: signer.RecommendedFee().Mul64(1000)}
	var renterCost, hostCost types.Currency
	fail := func(err error) RenewResult {
		out.LogFrom = h.Log.Len()
		out.Err = err
		return out
	}
	// core's builders subtract currencies and panic on underflow for
	// parameters a renter cannot afford; treat that as the renter's refusal.
	if err := func() (err error) {
		defer func() {
			if rec := recover(); rec != nil {
				err = fmt.Errorf("renter: cannot build renewal: %v", rec)
			}
		}()
		switch a.Kind {
		case "renew":
			renewal, usage = proto4.RenewContract(c.Revision, p, hostAddr, renewParams)
			rpcID = proto4.RPCRenewContractID
			renterCost, hostCost = proto4.RenewalCost(cs, renewal, txn.MinerFee)
		case "refresh-full":
			renewal, usage = proto4.RefreshContractFullRollover(c.Revision, p, hostAddr, refreshParams)
			rpcID = proto4.RPCRefreshContractID
			renterCost, hostCost = proto4.RefreshCost(cs, p, renewal, txn.MinerFee)
		case "refresh-partial":
			renewal, usage = proto4.RefreshContractPartialRollover(c.Revision, p, hostAddr, refreshParams)
			rpcID = proto4.RPCRefreshPartialID
			renterCost, hostCost = proto4.RefreshCost(cs, p, renewal, txn.MinerFee)
		default:
			return fmt.Errorf("harness: unknown renewal kind %q", a.Kind)
		}
		return nil
	}(); err != nil {
		return fail(err)
	}
	out.Expected, out.Usage = renewal, usage

	basis, toSign, err := signer.FundV2Transaction(&txn, renterCost)
	if err != nil {
		return fail(fmt.Errorf("renter: cannot fund: %w", err))
	}
	release := func() { signer.ReleaseInputs([]types.V2Transaction{txn}) }
	reqBasis, parents, err := h.CM.V2TransactionSet(basis, txn)
	if err != nil {
		release()
		return fail(fmt.Errorf("renter: transaction set: %w", err))
	}
	var inputs []types.SiacoinElement
	for _, si := range txn.SiacoinInputs {
		inputs = append(inputs, si.Parent.Copy())
	}
	parents = parents[:len(parents)-1]

	x, err := r.open(s, &out.Result)
	if err != nil {
		release()
		return
	}
	err = func() error {
		var req proto4.Object
		if a.Kind == "renew" {
			q := &proto4.RPCRenewContractRequest{Prices: p, Renewal: renewParams, MinerFee: txn.MinerFee, Basis: reqBasis, RenterInputs: inputs, RenterParents: parents}
			q.ChallengeSignature = t.challenge(r, c.Revision.RevisionNumber, q.ChallengeSigHash)
			req = q
		} else {
			q := &proto4.RPCRefreshContractRequest{Prices: p, Refresh: refreshParams, MinerFee: txn.MinerFee, Basis: reqBasis, RenterInputs: inputs, RenterParents: parents}
			q.ChallengeSignature = t.challenge(r, c.Revision.RevisionNumber, q.ChallengeSigHash)
			req = q
		}
		t.request(req)
		if err := x.sendRequest(rpcID, req); err != nil {
			return err
		}
		var hostInputs proto4.RPCRenewContractResponse // same wire shape for refresh
		if err := x.recv(&hostInputs); err != nil {
			return err
		}
		t.between()
		if t != nil && t.DoubleSpend {
			if err := r.doubleSpend(reqBasis, inputs); err != nil {
				return fmt.Errorf("renter: double spend not accepted by the pool: %w", err)
			}
		}
		var sum types.Currency
		for _, si := range hostInputs.HostInputs {
			sum = sum.Add(si.Parent.SiacoinOutput.Value)
			txn.SiacoinInputs = append(txn.SiacoinInputs, si)
		}
		if n := sum.Cmp(hostCost); n < 0 {
			return errors.New("renter: host underfunded")
		} else if n > 0 {
			txn.SiacoinOutputs = append(txn.SiacoinOutputs, types.SiacoinOutput{Address: renewal.NewContract.HostOutput.Address, Value: sum.Sub(hostCost)})
		}
		txn.FileContractResolutions = []types.V2FileContractResolution{{Parent: types.V2FileContractElement{ID: c.ID}, Resolution: &renewal}}
		signer.SignV2Inputs(&txn, toSign)
		key := r.Key
		if t != nil && t.SigKey != nil {
			key = *t.SigKey
		}
		renewalSig := key.SignHash(cs.RenewalSigHash(renewal))
		if t != nil && t.Signature != nil {
			t.Signature(&renewalSig)
		}
		signedContract := renewal.NewContract
		if t != nil && t.Revision != nil {
			t.Revision(&signedContract)
		}
		contractSig := key.SignHash(cs.ContractSigHash(signedContract))
		second := proto4.RPCRenewContractSecondResponse{RenterRenewalSignature: renewalSig, RenterContractSignature: contractSig}
		for _, si := range txn.SiacoinInputs[:len(inputs)] {
			second.RenterSatisfiedPolicies = append(second.RenterSatisfiedPolicies, si.SatisfiedPolicy)
		}
		t.second(&second)
		if err := x.send(&second); err != nil {
			return err
		}
		out.SignaturesSent = true
		var third proto4.RPCRenewContractThirdResponse
		if err := x.recv(&third); err != nil {
			return err
		}
		if len(third.TransactionSet) == 0 {
			return errors.New("renter: empty transaction set")
		}
		hostTxn := third.TransactionSet[len(third.TransactionSet)-1]
		if len(hostTxn.FileContractResolutions) != 1 {
			return errors.New("renter: expected one resolution")
		}
		hr, ok := hostTxn.FileContractResolutions[0].Resolution.(*types.V2FileContractRenewal)
		if !ok {
			return errors.New("renter: expected a renewal resolution")
		}
		out.HostRenewal = *hr
		nc := renewal.NewContract
		nc.RenterSignature = contractSig
		nc.HostSignature = hr.NewContract.HostSignature
		out.NewContract = Contract{ID: c.ID.V2RenewalID(), Revision: nc}
		out.Set = rhp4.TransactionSet{Basis: third.Basis, Transactions: third.TransactionSet}
		return nil
	}()
	x.finish(err)
	if !out.SignaturesSent || out.RPCErr != nil {
		release()
	}
	return
}
