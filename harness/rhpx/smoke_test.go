package rhpx

import (
	"context"
	"testing"
	"time"

	proto4 "go.sia.tech/core/rhp/v4"
	"go.sia.tech/core/types"
	rhp4 "go.sia.tech/coreutils/rhp/v4"
)

func TestSmoke(t *testing.T) {
	PoolSector(0)
	t0 := time.Now()
	h, err := NewHost(HostConfig{})
	if err != nil {
		t.Fatal(err)
	}
	defer h.Close()
	t.Logf("fixture %v", time.Since(t0))
	r := NewRenter(h)
	prices, err := h.FetchPrices()
	if err != nil {
		t.Fatal(err)
	}
	t0 = time.Now()
	fr := r.Form(prices, proto4.RPCFormContractParams{RenterPublicKey: h.RenterKey.PublicKey(), RenterAddress: h.RenterWallet.Address(), Allowance: types.Siacoins(100), Collateral: types.Siacoins(200), ProofHeight: h.CM.Tip().Height + 50}, Script{}, nil)
	if !fr.Done {
		t.Fatal(fr.Result)
	}
	t.Logf("form %v", time.Since(t0))
	t0 = time.Now()
	if err := h.Mine(types.VoidAddress, 1); err != nil {
		t.Fatal(err)
	}
	t.Logf("mine %v", time.Since(t0))
	c := fr.Contract
	var roots []types.Hash256
	for i := 0; i < 5; i++ {
		root, _ := PoolSector(i)
		roots = append(roots, root)
	}
	t0 = time.Now()
	ar := r.Append(c, prices, roots, Script{}, nil)
	if !ar.Done || !ar.ProofOK {
		t.Fatal(ar.Result, ar.ProofOK)
	}
	t.Logf("append %v", time.Since(t0))
	c.Revision = ar.Revision
	c.Revision.RenterSignature, c.Revision.HostSignature = ar.RenterSig, ar.HostSig
	snap := h.Snapshot([]types.FileContractID{c.ID}, nil, nil)
	if len(snap.Contracts[0].Roots) != 5 || !snap.AttachedFromState {
		t.Fatal(snap)
	}
	// honest client free
	t0 = time.Now()
	res, err := rhp4.RPCFreeSectors(context.Background(), h.Client, h.Signer(), r.CS(), prices, rhp4.ContractRevision{ID: c.ID, Revision: c.Revision}, []uint64{0, 3})
	if err != nil {
		t.Fatal(err)
	}
	h.Client.WaitIdle(Watchdog)
	t.Logf("free %v", time.Since(t0))
	c.Revision = res.Revision
	// abort after first response
	before := h.Snapshot([]types.FileContractID{c.ID}, nil, nil)
	f2 := r.Free(c, prices, []uint64{0}, Script{AbortAt: 3}, nil)
	after := h.Snapshot([]types.FileContractID{c.ID}, nil, nil)
	t.Logf("abort free: %v diff=%q", f2.Result, before.Diff(after))
	f3 := r.Free(c, prices, []uint64{0}, Script{AbortAt: 3, Mode: ModeStall}, nil)
	t.Logf("stall free: %v", f3.Result)
	// renew
	t0 = time.Now()
	rr := r.Renew(c, prices, RenewArgs{Kind: "renew", Allowance: types.Siacoins(100), Collateral: types.Siacoins(200), ProofHeight: c.Revision.ProofHeight + 10}, Script{}, nil)
	t.Logf("renew %v: %v", time.Since(t0), rr.Result)
	for _, call := range h.Log.Since(0) {
		if call.Op == "ReviseV2Contract" || call.Op == "RenewV2Contract" || call.Op == "AddV2Contract" {
			t.Logf("%d %s err=%q", call.Seq, call.Op, call.Err)
		}
	}
}
