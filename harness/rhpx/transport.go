// Package rhpx is the shared RHP4 kit of the harness: an in-memory transport
// (this file), a host fixture built from the repository's reference
// implementations, recording wrappers around the host-side interfaces and a
// scripted (honest / corrupting / aborting) renter.
//
// The transport's only obligations are the net.Conn ones. Streams are
// unbounded buffered duplex pipes, so neither side ever blocks on a write and
// an exchange is sequenced only by what each side reads.
package rhpx

import (
	"context"
	"errors"
	"io"
	"net"
	"os"
	"sync"
	"time"

	"go.sia.tech/core/types"
)

// half is one direction of a duplex pipe.
type half struct {
	mu       sync.Mutex
	cond     *sync.Cond
	buf      []byte
	wclosed  bool // writer closed: reader sees EOF after draining
	rclosed  bool // reader closed: writer gets io.ErrClosedPipe
	deadline time.Time
	timer    *time.Timer
	total    int64 // bytes ever written
}

func newHalf() *half {
	h := &half{}
	h.cond = sync.NewCond(&h.mu)
	return h
}

func (h *half) write(p []byte) (int, error) {
	h.mu.Lock()
	defer h.mu.Unlock()
	if h.wclosed || h.rclosed {
		return 0, io.ErrClosedPipe
	}
	h.buf = append(h.buf, p...)
	h.total += int64(len(p))
	h.cond.Broadcast()
	return len(p), nil
}

func (h *half) read(p []byte, self *Conn) (int, error) {
	h.mu.Lock()
	defer h.mu.Unlock()
	for {
		if h.rclosed {
			return 0, io.ErrClosedPipe
		}
		if self.isExpired() || (!h.deadline.IsZero() && !time.Now().Before(h.deadline)) {
			return 0, os.ErrDeadlineExceeded
		}
		if len(h.buf) > 0 {
			n := copy(p, h.buf)
			h.buf = h.buf[n:]
			if len(h.buf) == 0 {
				h.buf = nil
			}
			return n, nil
		}
		if h.wclosed {
			return 0, io.EOF
		}
		if len(p) == 0 {
			return 0, nil
		}
		h.cond.Wait()
	}
}

func (h *half) setDeadline(t time.Time) {
	h.mu.Lock()
	defer h.mu.Unlock()
	h.deadline = t
	if h.timer != nil {
		h.timer.Stop()
		h.timer = nil
	}
	if !t.IsZero() {
		d := time.Until(t)
		if d < 0 {
			d = 0
		}
		h.timer = time.AfterFunc(d, func() {
			h.mu.Lock()
			h.cond.Broadcast()
			h.mu.Unlock()
		})
	}
	h.cond.Broadcast()
}

func (h *half) closeWrite() {
	h.mu.Lock()
	h.wclosed = true
	h.cond.Broadcast()
	h.mu.Unlock()
}

func (h *half) closeRead() {
	h.mu.Lock()
	h.rclosed = true
	h.buf = nil
	if h.timer != nil {
		h.timer.Stop()
		h.timer = nil
	}
	h.cond.Broadcast()
	h.mu.Unlock()
}

func (h *half) wake() {
	h.mu.Lock()
	h.cond.Broadcast()
	h.mu.Unlock()
}

type pipeAddr string

func (a pipeAddr) Network() string { return "rhpx" }
func (a pipeAddr) String() string  { return string(a) }

// Conn is one end of an in-memory buffered duplex stream. It implements
// net.Conn.
type Conn struct {
	r, w *half
	name string
	peer *Conn

	mu        sync.Mutex
	closed    bool
	expired   bool
	wdeadline time.Time
	done      chan struct{}
}

// Pipe returns the two ends of a fresh buffered duplex stream.
func Pipe() (a, b *Conn) {
	ab, ba := newHalf(), newHalf()
	a = &Conn{r: ba, w: ab, name: "renter", done: make(chan struct{})}
	b = &Conn{r: ab, w: ba, name: "host", done: make(chan struct{})}
	a.peer, b.peer = b, a
	return
}

func (c *Conn) isExpired() bool {
	c.mu.Lock()
	defer c.mu.Unlock()
	return c.expired
}

// Read implements net.Conn.
func (c *Conn) Read(p []byte) (int, error) { return c.r.read(p, c) }

// Write implements net.Conn.
func (c *Conn) Write(p []byte) (int, error) {
	c.mu.Lock()
	closed, expired, wd := c.closed, c.expired, c.wdeadline
	c.mu.Unlock()
	if closed {
		return 0, io.ErrClosedPipe
	}
	if expired || (!wd.IsZero() && !time.Now().Before(wd)) {
		return 0, os.ErrDeadlineExceeded
	}
	return c.w.write(p)
}

// Close implements net.Conn. The peer drains what was written and then reads
// io.EOF; the peer's writes fail from now on.
func (c *Conn) Close() error {
	c.mu.Lock()
	if c.closed {
		c.mu.Unlock()
		return nil
	}
	c.closed = true
	close(c.done)
	c.mu.Unlock()
	c.w.closeWrite()
	c.r.closeRead()
	return nil
}

// Done is closed when this end has been closed.
func (c *Conn) Done() <-chan struct{} { return c.done }

// PeerDone is closed when the other end has been closed.
func (c *Conn) PeerDone() <-chan struct{} { return c.peer.done }

// Peer returns the other end.
func (c *Conn) Peer() *Conn { return c.peer }

// Expire makes every pending and future Read and Write on this end fail with
// os.ErrDeadlineExceeded, as if the deadline set by its owner had passed. It
// is how the harness lets "the renter went silent, the host's RPC timeout
// fired" happen without waiting for a wall clock.
func (c *Conn) Expire() {
	c.mu.Lock()
	c.expired = true
	c.mu.Unlock()
	c.r.wake()
}

// Written returns the number of bytes this end has written so far.
func (c *Conn) Written() int64 {
	c.w.mu.Lock()
	defer c.w.mu.Unlock()
	return c.w.total
}

// LocalAddr implements net.Conn.
func (c *Conn) LocalAddr() net.Addr { return pipeAddr(c.name) }

// RemoteAddr implements net.Conn.
func (c *Conn) RemoteAddr() net.Addr { return pipeAddr(c.peer.name) }

// SetDeadline implements net.Conn.
func (c *Conn) SetDeadline(t time.Time) error {
	c.SetReadDeadline(t)
	c.SetWriteDeadline(t)
	return nil
}

// SetReadDeadline implements net.Conn.
func (c *Conn) SetReadDeadline(t time.Time) error {
	c.r.setDeadline(t)
	return nil
}

// SetWriteDeadline implements net.Conn.
func (c *Conn) SetWriteDeadline(t time.Time) error {
	c.mu.Lock()
	c.wdeadline = t
	c.mu.Unlock()
	return nil
}

var _ net.Conn = (*Conn)(nil)

// Mux is the host side of the in-memory transport; it implements the
// repository's rhp4.TransportMux (AcceptStream, Close).
type Mux struct {
	streams chan *Conn
	closed  chan struct{}
	once    sync.Once
}

// AcceptStream implements rhp4.TransportMux.
func (m *Mux) AcceptStream() (net.Conn, error) {
	select {
	case <-m.closed:
		return nil, net.ErrClosed
	default:
	}
	select {
	case c := <-m.streams:
		return c, nil
	case <-m.closed:
		return nil, net.ErrClosed
	}
}

// Close implements rhp4.TransportMux.
func (m *Mux) Close() error {
	m.once.Do(func() { close(m.closed) })
	return nil
}

// Client is the renter side of the in-memory transport; it implements the
// repository's rhp4.TransportClient.
type Client struct {
	mux     *Mux
	peerKey types.PublicKey

	mu     sync.Mutex
	hostTx []*Conn // host-side ends of every stream dialed so far
	last   *Conn   // renter-side end of the most recent stream

	// DialErr, if set, is consulted on every DialStream; a non-nil result
	// fails the dial.
	DialErr func() error
	// Wrap, if set, is applied to the renter-side end of every new stream
	// before it is returned (man-in-the-middle hooks).
	Wrap func(renterSide *Conn) net.Conn
}

// NewTransport returns a connected Mux/Client pair. peerKey is what
// Client.PeerKey reports (the host's public key).
func NewTransport(peerKey types.PublicKey) (*Mux, *Client) {
	m := &Mux{streams: make(chan *Conn, 64), closed: make(chan struct{})}
	return m, &Client{mux: m, peerKey: peerKey}
}

// ErrTransportClosed is returned by DialStream after the mux was closed.
var ErrTransportClosed = errors.New("rhpx: transport closed")

// DialConn opens a new stream and returns the raw renter-side end.
func (c *Client) DialConn(ctx context.Context) (*Conn, error) {
	if c.DialErr != nil {
		if err := c.DialErr(); err != nil {
			return nil, err
		}
	}
	if err := ctx.Err(); err != nil {
		return nil, err
	}
	a, b := Pipe()
	select {
	case <-c.mux.closed:
		return nil, ErrTransportClosed
	default:
	}
	select {
	case c.mux.streams <- b:
	case <-c.mux.closed:
		return nil, ErrTransportClosed
	case <-ctx.Done():
		return nil, ctx.Err()
	}
	c.mu.Lock()
	c.hostTx = append(c.hostTx, b)
	c.last = a
	c.mu.Unlock()
	return a, nil
}

// DialStream implements rhp4.TransportClient.
func (c *Client) DialStream(ctx context.Context) (net.Conn, error) {
	a, err := c.DialConn(ctx)
	if err != nil {
		return nil, err
	}
	if c.Wrap != nil {
		return c.Wrap(a), nil
	}
	return a, nil
}

// FrameSize implements rhp4.TransportClient.
func (c *Client) FrameSize() int { return 1440 * 3 }

// PeerKey implements rhp4.TransportClient.
func (c *Client) PeerKey() types.PublicKey { return c.peerKey }

// Close implements rhp4.TransportClient.
func (c *Client) Close() error { return c.mux.Close() }

// Last returns the renter-side end of the most recently dialed stream.
func (c *Client) Last() *Conn {
	c.mu.Lock()
	defer c.mu.Unlock()
	return c.last
}

// Streams returns how many streams were dialed so far.
func (c *Client) Streams() int {
	c.mu.Lock()
	defer c.mu.Unlock()
	return len(c.hostTx)
}

// WaitIdle blocks until the host has closed its end of every stream dialed so
// far, i.e. until every handler started for them has returned and released
// what it held (the server closes the stream after the handler, and handlers
// release contract locks in their own deferred calls before that). It reports
// false if that did not happen within the watchdog d; that is an
// infrastructure condition, never a verdict.
func (c *Client) WaitIdle(d time.Duration) bool {
	c.mu.Lock()
	conns := c.hostTx
	c.hostTx = nil
	c.mu.Unlock()
	var t *time.Timer
	for i, hc := range conns {
		select {
		case <-hc.done:
			continue
		default:
		}
		if t == nil {
			t = time.NewTimer(d)
			defer t.Stop()
		}
		select {
		case <-hc.done:
		case <-t.C:
			c.mu.Lock()
			c.hostTx = append(conns[i:], c.hostTx...)
			c.mu.Unlock()
			return false
		}
	}
	return true
}
