#!/usr/bin/env python3
"""Print the class histogram of an evidence file: classes.py C01 [substring]"""
import json,sys
e=json.load(open('/verif/evidence/%s.json'%sys.argv[1]))
c=e['coverage']
print('evaluations',c['evaluations'],'distinct_nontrivial',c['distinct_nontrivial'],'wall',e['wall_s'],'excluded',c.get('excluded_by_construction'),'inconclusive',c.get('inconclusive'))
for k,v in c['classes'].items():
    if len(sys.argv)<3 or sys.argv[2] in k: print('  %-50s %d'%(k,v))
