#!/bin/bash
# tools/covreview.sh <props-pkg> <coverpkg,coverpkg,...> <checks> <source-suffix>...
# Coverage-guided review of a props package's generators: builds its test binary
# with -cover against the named coreutils packages, runs every Test* stage once
# (quick tier, <checks> rapid cases, shard 0 of 2), merges the profiles and lists
# the never-executed blocks of the named source files. Scratch output in a temp
# directory that is removed afterwards.  Example:
#   tools/covreview.sh chain go.sia.tech/coreutils/chain,go.sia.tech/coreutils 400 chain/manager.go chain/db.go miner.go
set -e
pkg=$1; cover=$2; checks=$3; shift 3
export GOFLAGS=-mod=mod GOPROXY=off
d=$(mktemp -d /tmp/covreview-XXXXXX); trap 'rm -rf "$d"' EXIT
(cd /verif/harness && go test -tags verif -c -cover -coverpkg=$cover -o $d/t.test ./props/$pkg/)
cd $d
for t in $(./t.test -test.list 'Test' 2>/dev/null | grep -v Known | grep -v KitSelf); do
  ( VERIF_TIER=quick VERIF_SEED=1 VERIF_SHARD=0 VERIF_SHARDS=2 VERIF_CHECKS=$checks VERIF_STATS=$d/$t.stats VERIF_REPLAY_OUT=$d/replays \
    ./t.test -test.run "^$t\$" -rapid.checks=$checks -rapid.seed=7 -test.timeout 1500s -test.coverprofile=$d/p-$t.out > $d/$t.log 2>&1; echo "$t exit=$?" ) &
done
wait
python3 - "$d" "$@" <<'PY'
import glob,re,collections,sys
d=sys.argv[1]; targets=sys.argv[2:]
cov=collections.defaultdict(int)
for f in glob.glob(d+'/p-*.out'):
    for line in open(f):
        m=re.match(r'(.+):(\d+)\.(\d+),(\d+)\.(\d+) (\d+) (\d+)',line)
        if m: cov[(m.group(1),int(m.group(2)),int(m.group(4)))]+=int(m.group(7))
for target in targets:
    print('=====',target); src=None
    for (f,a,b),c in sorted(cov.items()):
        if f.endswith(target) and c==0:
            if src is None: src=open('/repo/'+f.split('go.sia.tech/coreutils/')[1]).read().split('\n')
            print(f'{a}-{b}: '+src[a-1].strip()[:120])
PY
