#!/usr/bin/env python3
"""Generate MANIFEST.json from checks_config.PROPS and manifest_meta.json."""
import json, sys, os
sys.path.insert(0, '/verif')
from checks_config import PROPS
meta = json.load(open('/verif/manifest_meta.json'))
import glob
meta['checks'] = {}
for f in sorted(glob.glob('/verif/manifest.d/*.json')):
    meta['checks'].update(json.load(open(f)))
props = [json.loads(l)['id'] for l in open('/verif/properties.jsonl')]
checks, na = [], []
for p in props:
    if p in PROPS and p in meta['checks']:
        m = meta['checks'][p]
        checks.append(dict(
            property_id=p,
            quick_cmd="./check %s --tier quick" % p,
            thorough_cmd="./check %s --tier thorough" % p,
            evidence_file="/verif/evidence/%s.json" % p,
            replay_cmd_template="./check %s --replay {path}" % p,
            engine="harness",
            level_claimed=dict(category=PROPS[p]['level'], text=m['text'], design_ref=m.get('design_ref', 'DESIGN.md §5 ' + p)),
            level_note=m['note'],
            technique=m['technique'],
        ))
    else:
        na.append(dict(property_id=p, reason=meta.get('not_applicable', {}).get(p, "check not built yet in this session; the design (DESIGN.md §5) claims it and it will be registered when its harness exists")))
man = dict(
    version=1,
    setup_cmd="mkdir -p /verif/.build && cd /verif/harness && for p in props/*/; do GOFLAGS=-mod=mod GOPROXY=off go test -c -tags verif -o /verif/.build/$(basename $p).test ./$p || echo \"setup: build of $p failed (the check that needs it will report it)\"; done; true",
    hooks=meta['hooks'],
    engines=[dict(name="harness", path="/verif/harness", serves_properties=[c['property_id'] for c in checks],
                  kind_free_text="Go module using pgregory.net/rapid v1.3.0 (generators, shrinking), exhaustive sweeps and native go fuzzing; python3 driver /verif/check shards, merges evidence, handles replays and known findings")],
    checks=checks,
    notes=meta['notes'],
    not_applicable=na,
)
json.dump(man, open('/verif/MANIFEST.json', 'w'), indent=1)
print(len(checks), "claimed;", len(na), "not claimed")
