#!/usr/bin/env python3
"""Regenerate the generated tables of DESIGN.md (between the GENERATED markers):
checks built, findings, mutant results, seeded changes."""
import json, glob, os, re, sys
sys.path.insert(0, '/verif')
from checks_config import PROPS

def esc(s):
    return str(s).replace('|', '\\|').replace('\n', ' ')

out = []
props = [json.loads(l) for l in open('/verif/properties.jsonl')]
# ---- checks
out.append('### 9.1 Checks built (generated from checks.d, evidence/)\n')
out.append('| id | package | stages (kind:test) | level | quick: evaluations / distinct non-trivial / wall s |')
out.append('|---|---|---|---|---|')
for p in props:
    pid = p['id']
    cfg = PROPS.get(pid)
    if not cfg:
        out.append('| %s | - | not built | - | - |' % pid)
        continue
    stages = ', '.join('%s:%s%s' % (s.get('kind', 'rapid'), s['test'], ' (thorough only)' if s.get('tiers') == ['thorough'] else '') for s in cfg['stages'])
    ev = '-'
    try:
        e = json.load(open('/verif/evidence/%s.json' % pid))
        if e['tier'] == 'quick':
            ev = '%d / %d / %.0f' % (e['coverage']['evaluations'], e['coverage']['distinct_nontrivial'], e['wall_s'])
        else:
            ev = '(last run was thorough: %d / %d / %.0f)' % (e['coverage']['evaluations'], e['coverage']['distinct_nontrivial'], e['wall_s'])
    except Exception:
        pass
    out.append('| %s | props/%s | %s | %s | %s |' % (pid, cfg['pkg'], esc(stages), cfg['level'], ev))
out.append('')
# ---- findings
out.append('### 9.2 Defects found in the repository (generated from known_findings.json)\n')
out.append('| key | property | status | commit | what failed |')
out.append('|---|---|---|---|---|')
for k in sorted(json.load(open('/verif/known_findings.json')), key=lambda k: k['key']):
    out.append('| %s | %s | %s | %s | %s |' % (k['key'], k['property'], k['status'], k.get('commit', '-'), esc(k['what'])))
out.append('')
# ---- mutants
out.append('### 9.3 Sensitivity: hand-written mutants (generated from mutants/RESULTS-*.tsv; authors\' own tables are in mutants/RESULTS-*.md)\n')
out.append('| mutant | existing suite | check exit (1 = caught) |')
out.append('|---|---|---|')
equiv = json.load(open('/verif/mutants/equivalent.json')) if os.path.exists('/verif/mutants/equivalent.json') else {}
for f in sorted(glob.glob('/verif/mutants/RESULTS-*.tsv')):
    for line in open(f):
        parts = line.rstrip('\n').split('\t')
        if len(parts) == 3:
            if parts[0] in equiv and parts[2] == '0':
                parts[2] = '0 - ' + equiv[parts[0]]
            out.append('| %s | %s | %s |' % tuple(esc(x) for x in parts))
out.append('')
# ---- seeded
out.append('### 9.4 Independently seeded changes (generated from seeded/*/meta.json and seeded/RESULTS.tsv)\n')
out.append('"now" = the check of the broken property re-run against the change at the committed state (tools/run_seeds.sh, quick tier): 1 = violation reported, 0 = missed. "first" = the results when the change was delivered, before any strengthening.\n')
now = {}
if os.path.exists('/verif/seeded/RESULTS.tsv'):
    for l in open('/verif/seeded/RESULTS.tsv'):
        c = l.rstrip('\n').split('\t')
        if len(c) >= 3:
            now[c[0]] = c[2]
def hist(h):
    if isinstance(h, str):
        return h
    parts = []
    for e in h:
        if isinstance(e, dict):
            parts.append('; '.join('%s: %s' % (k, v) for k, v in e.items()))
        else:
            parts.append(str(e))
    return ' // '.join(parts)
out.append('| seed | breaks | needs to manifest | first | now | history |')
out.append('|---|---|---|---|---|---|')
for f in sorted(glob.glob('/verif/seeded/*/meta.json')):
    m = json.load(open(f))
    res = ', '.join('%s %s' % (k, v) for k, v in m.get('check_results', {}).items())
    out.append('| %s | %s | %s | %s | %s | %s |' % (m['seed'], m['breaks_property'], esc(m['needs_to_manifest']), esc(res), ('n/a: cannot manifest since fix ' + m['obsolete_since']) if m.get('obsolete_since') else now.get(m['seed'], '-'), esc(hist(m.get('history', '')))))
out.append('')
text = '\n'.join(out)
d = open('/verif/DESIGN.md').read()
a, b = '<!-- BEGIN GENERATED -->', '<!-- END GENERATED -->'
if a in d and b in d:
    d = d[:d.index(a) + len(a)] + '\n' + text + '\n' + d[d.index(b):]
    open('/verif/DESIGN.md', 'w').write(d)
    print('DESIGN.md tables regenerated (%d lines)' % len(out))
else:
    print(text)
