#!/usr/bin/env python3
"""mk_seed_prompts.py <round> <ID>...: write /tmp/seedprompts/<ID>-<round>.txt from the base prompt,
listing the already delivered seeds and hand-written mutants of that property as things to avoid."""
import sys, json, glob, os, re
rnd = sys.argv[1]
for pid in sys.argv[2:]:
    base = open('/tmp/seedprompts/%s.txt' % pid).read().replace('/tmp/seed-' + pid, '/tmp/seed%s-%s' % (rnd, pid))
    avoid = []
    for f in sorted(glob.glob('/verif/seeded/%s-*/meta.json' % pid)):
        m = json.load(open(f))
        avoid.append(m['seed'].split('-', 1)[1].replace('-', ' ') + ' (trigger: ' + m['needs_to_manifest'][:160] + ')')
    for f in sorted(glob.glob('/verif/mutants/%s-*.patch' % pid)):
        avoid.append(os.path.basename(f)[len(pid) + 1:-6].replace('-', ' '))
    extra = ("Other seeders already delivered the following defects for this property, so yours MUST be a different one, "
             "in a different mechanism or code path (do NOT reuse or vary any of these):\n  - " + "\n  - ".join(avoid) +
             "\nLook for less obvious places that the property's statement also covers: rarely used options and configuration values, "
             "boundary heights/sizes/counts, caches and their invalidation, error and cleanup paths, interactions between two features, "
             "the reference implementations under testutil/ that the property's files name, API variants that mirror each other (v1/v2, "
             "accounts/pools, renew/refresh, apply/revert, inbound/outbound) where only one side gets the bug.\n\n")
    base = base.replace("Your task: introduce ONE realistic defect", extra + "Your task: introduce ONE realistic defect")
    open('/tmp/seedprompts/%s-%s.txt' % (pid, rnd), 'w').write(base)
    print(pid, len(avoid), 'to avoid')
