#!/bin/bash
# tools/mkmut.sh <name> <python-edit-script>: run the edit script in a scratch
# worktree of /repo and save the resulting diff as mutants/<name>.patch
set -e
name=$1; script=$(realpath "$2")
d=$(mktemp -d /tmp/mkmut-XXXXXX); rmdir "$d"
git -C /repo worktree add -q --detach "$d" HEAD
trap 'git -C /repo worktree remove --force "$d" 2>/dev/null || true' EXIT
(cd "$d" && python3 "$script" && git diff > /verif/mutants/$name.patch)
echo "$name: $(wc -l < /verif/mutants/$name.patch) lines"
