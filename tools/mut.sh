#!/bin/bash
# Sensitivity run: apply a patch to a scratch worktree of /repo (never /repo
# itself), run one or more checks against it, then remove the worktree.
#   tools/mut.sh <patch.diff> <ID>[,<ID>…] [--suite ./chain/...] [--tier quick]
set -u
patch=$(realpath "$1"); ids=$2; shift 2
suite=""; tier=quick
while [ $# -gt 0 ]; do case "$1" in --suite) suite=$2; shift 2;; --tier) tier=$2; shift 2;; *) shift;; esac; done
d=$(mktemp -d /tmp/mut-XXXXXX); rmdir "$d"
git -C /repo worktree add -q --detach "$d" HEAD || exit 2
cleanup() { git -C /repo worktree remove --force "$d" 2>/dev/null; rm -rf "$d"; h=$(python3 -c "import hashlib,sys;print(hashlib.sha256(sys.argv[1].encode()).hexdigest()[:10])" "$d"); rm -rf /verif/.build/alt-$h; }
trap cleanup EXIT
if ! git -C "$d" apply "$patch"; then echo "PATCH-FAILED $patch"; exit 2; fi
if [ -n "$suite" ]; then
  (cd "$d" && go build ./... && go vet ./... >/dev/null 2>&1; go test -count=1 $suite 2>&1 | tail -5)
fi
rc=0
for id in ${ids//,/ }; do
  VERIF_REPO="$d" /verif/check "$id" --tier "$tier" > "$d.out.$id" 2>&1; r=$?
  echo "== $id exit=$r :: $(grep -E '^(VIOLATION|OK|INFRA|KNOWN)' "$d.out.$id" | head -3 | tr '\n' ' ')"
  [ "${MUT_VERBOSE:-0}" = 1 ] && tail -30 "$d.out.$id"
  rm -f "$d.out.$id"
  [ $r -ne 0 ] && rc=$r
done
exit $rc
