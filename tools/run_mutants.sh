#!/bin/bash
# tools/run_mutants.sh <ID>... : run every mutants/<ID>-*.patch against property <ID> (quick tier)
# and write mutants/RESULTS-<ID>.tsv (patch, suite result, check exit)
cd /verif
for id in "$@"; do
  out=mutants/RESULTS-$id.tsv; : > $out
  for p in mutants/$id-*.patch; do
    [ -f "$p" ] || continue
    suite="./chain/ ."; case $id in C20) suite="./wallet/";; C17) suite="./chain/ .";; esac
    res=$(tools/mut.sh $p $id --suite "$suite" 2>&1)
    st=$(echo "$res" | grep -cE "^(FAIL|--- FAIL)" ); chk=$(echo "$res" | grep "^== $id" | sed 's/.*exit=\([0-9]*\).*/\1/')
    [ "$st" -gt 0 ] && s="suite-fails" || s="suite-green"
    echo -e "$(basename $p .patch)\t$s\t${chk:-?}" | tee -a $out
  done
done
