#!/bin/bash
# tools/run_mutants_par.sh <workers> <ID>... : as tools/run_mutants.sh, several at a time.
cd /verif
W=$1; shift
tmp=$(mktemp -d /tmp/runmut-XXXXXX); trap 'rm -rf "$tmp"' EXIT
i=0
for id in "$@"; do
  for p in mutants/$id-*.patch; do
    [ -f "$p" ] || continue
    echo "$id $p" >> $tmp/w$((i % W)).list; i=$((i+1))
  done
done
work() {
  while read id p; do
    suite="./chain/ ."; case $id in C20) suite="./wallet/";; esac
    for attempt in 1 2 3; do
      res=$(tools/mut.sh $p $id --suite "$suite" 2>&1)
      chk=$(echo "$res" | grep "^== $id" | sed 's/.*exit=\([0-9]*\).*/\1/')
      [ "$chk" = 0 ] || [ "$chk" = 1 ] && break
      sleep $((RANDOM % 5 + 1))
    done
    st=$(echo "$res" | grep -cE "^(FAIL|--- FAIL)")
    [ "$st" -gt 0 ] && s="suite-fails" || s="suite-green"
    echo -e "$id\t$(basename $p .patch)\t$s\t${chk:-?}" | tee -a $2
  done < $1
}
for k in $(seq 0 $((W-1))); do [ -f $tmp/w$k.list ] && work $tmp/w$k.list $tmp/w$k.out & done
wait
for id in "$@"; do
  cat $tmp/*.out | awk -F'\t' -v id=$id '$1==id {print $2"\t"$3"\t"$4}' | sort > mutants/RESULTS-$id.tsv
done
echo "mutants measured: $(cat $tmp/*.out | wc -l); not killed: $(cat $tmp/*.out | awk -F'\t' '$4!=1' | wc -l)"
