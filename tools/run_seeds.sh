#!/bin/bash
# tools/run_seeds.sh [name-glob] : re-measure every seeded change against the check of the
# property it breaks (quick tier, scratch worktree, never /repo itself) and write
# seeded/RESULTS.tsv (seed, property, check exit, first line). Exit 1 = caught, 0 = missed.
cd /verif
pat=${1:-*}
out=seeded/RESULTS.tsv
[ "$pat" = "*" ] && : > $out
for d in seeded/$pat/; do
  n=$(basename $d)
  [ -f $d/patch.diff ] || continue
  id=$(python3 -c "import json,sys;m=json.load(open('$d/meta.json'));print('OBSOLETE' if m.get('obsolete_since') else m['breaks_property'])")
  [ "$id" = OBSOLETE ] && continue
  res=$(tools/mut.sh $d/patch.diff $id 2>&1 | grep "^== $id")
  ex=$(echo "$res" | sed 's/.*exit=\([0-9]*\).*/\1/')
  first=$(echo "$res" | sed 's/^== [^:]*:: //' | cut -c1-120)
  grep -v "^$n	" $out > $out.tmp 2>/dev/null; mv $out.tmp $out
  echo -e "$n\t$id\t${ex:-?}\t$(date '+%F %R')\t$first" | tee -a $out
done
sort -o $out $out
