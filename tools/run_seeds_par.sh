#!/bin/bash
# tools/run_seeds_par.sh [workers] : re-measure every seeded change (as tools/run_seeds.sh
# does, quick tier, scratch worktrees, never /repo itself) with several workers.
# Seeds of the timing-sensitive network properties (C11 C12 C18) get a worker of
# their own and run one at a time. Writes seeded/RESULTS.tsv.
cd /verif
W=${1:-3}
tmp=$(mktemp -d /tmp/runseeds-XXXXXX)
trap 'rm -rf "$tmp"' EXIT
: > $tmp/net.list; for k in $(seq 0 $((W-1))); do : > $tmp/w$k.list; done
i=0
for d in seeded/*/; do
  n=$(basename $d)
  [ -f $d/patch.diff ] || continue
  id=$(python3 -c "import json;m=json.load(open('$d/meta.json'));print('OBSOLETE' if m.get('obsolete_since') else m['breaks_property'])")
  [ "$id" = OBSOLETE ] && continue
  case $id in
    C11|C12|C18) echo "$n $id" >> $tmp/net.list;;
    *) echo "$n $id" >> $tmp/w$((i % W)).list; i=$((i+1));;
  esac
done
work() { # listfile outfile
  while read n id; do
    for attempt in 1 2 3; do
      res=$(tools/mut.sh seeded/$n/patch.diff $id 2>&1 | grep "^== $id")
      ex=$(echo "$res" | sed 's/.*exit=\([0-9]*\).*/\1/')
      # exit 2 = infrastructure (worktree/build collision, time budget): try again
      [ "$ex" = 0 ] || [ "$ex" = 1 ] && break
      sleep $((RANDOM % 5 + 1))
    done
    first=$(echo "$res" | sed 's/^== [^:]*:: //' | cut -c1-120)
    echo -e "$n\t$id\t${ex:-?}\t$(date '+%F %R')\t$first" | tee -a $2
  done < $1
}
for k in $(seq 0 $((W-1))); do work $tmp/w$k.list $tmp/w$k.out & done
work $tmp/net.list $tmp/net.out &
wait
cat $tmp/*.out | sort > seeded/RESULTS.tsv
echo "measured $(wc -l < seeded/RESULTS.tsv) seeds; missed: $(awk -F'\t' '$3==0' seeded/RESULTS.tsv | wc -l)"
