#!/bin/bash
# tools/seed_store.sh <seed-name> <property> <out-dir> <demo-file> <demo-dest> <demo-cmd> <needs...>
# copies a confirmed seeded change to /verif/seeded/<seed-name>/ and runs the property's checks against it
set -u
name=$1; prop=$2; out=$3; demo=$4; dest=$5; cmd=$6; needs=$7
sd=/verif/seeded/$name; mkdir -p $sd
cp $out/patch.diff $sd/patch.diff; cp $demo $sd/$(basename $demo); [ -f $out/README.md ] && cp $out/README.md $sd/SEEDER-README.md
res=$(/verif/tools/mut.sh $sd/patch.diff $prop 2>&1 | grep "^== ")
echo "$res"
python3 - "$name" "$prop" "$dest" "$cmd" "$needs" "$res" <<'PY'
import json,sys,time
name,prop,dest,cmd,needs,res=sys.argv[1:7]
caught={}
for line in res.splitlines():
    parts=line.split()
    if len(parts)>2: caught[parts[1]]=parts[2]
json.dump({"seed":name,"breaks_property":prop.split(',')[0],"demo_file":dest,"demo_command":cmd,
 "needs_to_manifest":needs,
 "confirmed":"tools/seed_validate.sh: patch applies at /repo HEAD, go build ok, existing suite green with it, demonstration fails with it and passes without it",
 "checks_run":"tools/mut.sh seeded/%s/patch.diff %s (quick tier, scratch worktree)"%(name,prop),
 "check_results":caught,"recorded":time.strftime("%Y-%m-%d %H:%M")},open('/verif/seeded/%s/meta.json'%name,'w'),indent=1)
print(open('/verif/seeded/%s/meta.json'%name).read())
PY
