#!/bin/bash
# tools/seed_validate.sh <name> <out-dir> <demo-src-file> <demo-dest-relpath> <go-test-pkg> <run-regex> [suite pkgs...]
# Confirms an independently seeded change in a scratch worktree: applies, builds,
# keeps the existing suite green, demo fails with it and passes without it.
set -u
name=$1; out=$2; demo=$3; dest=$4; pkg=$5; run=$6; shift 6
suite="${*:-./...}"
d=$(mktemp -d /tmp/sv-XXXXXX); rmdir "$d"
git -C /repo worktree add -q --detach "$d" HEAD || exit 2
trap 'git -C /repo worktree remove --force "$d" 2>/dev/null' EXIT
cd "$d"
git apply "$out/patch.diff" || { echo "RESULT $name: patch does not apply"; exit 1; }
go build ./... || { echo "RESULT $name: does not build"; exit 1; }
go vet ./... >/dev/null 2>&1 || echo "note: go vet reports something"
if go test -count=1 $suite > "$d.suite.log" 2>&1; then echo "suite green with the change"; else echo "RESULT $name: existing suite FAILS with the change"; grep -E "^(--- FAIL|FAIL)" "$d.suite.log" | head; rm -f "$d.suite.log"; exit 1; fi
rm -f "$d.suite.log"
mkdir -p "$(dirname "$d/$dest")"; cp "$demo" "$d/$dest"
if go test -count=1 -run "$run" "$pkg" > "$d.with.log" 2>&1; then echo "RESULT $name: demo PASSES with the change (not a demonstration)"; rm -f "$d".*.log; exit 1; fi
echo "demo fails with the change: $(grep -E -m2 '^\s+\S+_test.go|panic:' "$d.with.log" | tr '\n' ' ' | cut -c1-300)"
git apply -R "$out/patch.diff"
if go test -count=1 -run "$run" "$pkg" > "$d.without.log" 2>&1; then echo "demo passes without the change"; else echo "RESULT $name: demo FAILS without the change too"; tail -5 "$d.without.log"; rm -f "$d".*.log; exit 1; fi
rm -f "$d".*.log
echo "RESULT $name: CONFIRMED"
