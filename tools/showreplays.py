#!/usr/bin/env python3
import json,glob,sys
pat = sys.argv[1] if len(sys.argv)>1 else '*'
for f in sorted(glob.glob('/verif/replays/%s*.json' % pat)):
    r=json.load(open(f)); c=r.get('case',{})
    nb = len(c.get('tree',{}).get('blocks',[])) if isinstance(c,dict) and 'tree' in c else '-'
    print(f, 'blocks=%s'%nb, (r.get('error') or '')[:int(sys.argv[2]) if len(sys.argv)>2 else 500].replace('\n',' | '))
