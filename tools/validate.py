#!/opt/veriftools/pyvenv/bin/python
"""Validate MANIFEST.json and every evidence file against the schemas."""
import json, sys, glob, jsonschema
ok = True
m = json.load(open('/verif/MANIFEST.json'))
jsonschema.validate(m, json.load(open('/root/.vp/MANIFEST.schema.json')))
es = json.load(open('/root/.vp/EVIDENCE.schema.json'))
props = [json.loads(l)['id'] for l in open('/verif/properties.jsonl')]
claimed = [c['property_id'] for c in m['checks']]
na = [c['property_id'] for c in m.get('not_applicable', [])]
for p in props:
    if (p in claimed) == (p in na):
        print("property", p, "claimed/not_applicable mismatch"); ok = False
for c in m['checks']:
    f = c['evidence_file']
    try:
        ev = json.load(open(f)); jsonschema.validate(ev, es)
        assert ev['level'] == c['level_claimed']['category'], "level mismatch"
        print(c['property_id'], 'ok', ev['tier'], ev['coverage'].get('evaluations'), ev['coverage'].get('distinct_nontrivial'), "%.0fs" % ev['wall_s'])
    except Exception as e:
        print(c['property_id'], 'EVIDENCE INVALID', str(e)[:300]); ok = False
sys.exit(0 if ok else 1)
